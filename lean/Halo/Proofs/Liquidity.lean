/-
Proofs for the liquidity properties at world level:
  C04W  (`withdraw_effect`), C05W (`provide_effect_pos`, `provide_effect_empty`, `reserved_unit_unspendable`),
  C20   (`withdraw_live`, `tokSumOK_holder`, `tokSumOK_step`).
Statements live in `Halo/Props/C04W.lean`, `Halo/Props/C05W.lean`, `Halo/Props/C20.lean`.
-/
import Halo.Inv
import Halo.Proofs.C04
import Halo.Spec
import Halo.Props.C09
import Halo.Proofs.C02

set_option linter.unusedSimpArgs false

namespace Halo.Liquidity
open Halo

theorem ok_bind {α β} (a : α) (f : α → M β) : ((Except.ok a : M α) >>= f) = f a := rfl

/-! ### withdrawal: inversion -/

theorem pairWithdraw_ok {w w' : World} {p : Nat} {P : PairSt} {s a x0 x1 : Nat}
    (h : pairWithdraw w p P s a = .ok (w', x0, x1)) :
    (w.tok P.lp).isSome ∧
    withdrawRefund (bal w P.a0 p) a (supply w P.lp) = .ok x0 ∧
    withdrawRefund (bal w P.a1 p) a (supply w P.lp) = .ok x1 ∧
    ∃ w1 w2, payout w p P.a0 s x0 = .ok w1 ∧ payout w1 p P.a1 s x1 = .ok w2 ∧
      tokBurn w2 P.lp p a = .ok w' := by
  unfold pairWithdraw at h
  simp only [bind_ok_iff, pure_ok_iff, Prod.mk.injEq] at h
  obtain ⟨r0, hr0, r1, hr1, S, hS, ratio, hratio, y0, hy0, y1, hy1, w1, hp0, w2, hp1, w3, hb, rfl, rfl, rfl⟩ := h
  have e0 := balOf_ok hr0
  have e1 := balOf_ok hr1
  obtain ⟨eS, hlp⟩ := supplyOf_ok hS
  subst e0 e1 eS
  refine ⟨hlp, ?_, ?_, w1, w2, hp0, hp1, hb⟩
  · unfold withdrawRefund; rw [hratio]; exact hy0
  · unfold withdrawRefund; rw [hratio]; exact hy1

theorem tokSendPair_withdraw_ok {w w' : World} {t h p a : Nat} {P : PairSt} {out : Out}
    (hP : w.pair p = some P)
    (hx : tokSendPair w t h p a .withdraw = .ok (w', out)) :
    t = P.lp ∧ ∃ w0 x0 x1, out = .withdraw x0 x1 ∧ tokTransfer w t h p a = .ok w0 ∧
      pairWithdraw w0 p P h a = .ok (w', x0, x1) := by
  unfold tokSendPair at hx
  simp only [bind_ok_iff] at hx
  obtain ⟨w0, htr, hrc⟩ := hx
  have hpair : w0.pair = w.pair := (tokTransfer_same htr).1.pair
  unfold pairReceive at hrc
  rw [hpair] at hrc
  simp only [hP] at hrc
  by_cases ht : t = P.lp
  · rw [if_neg (fun hh => hh ht)] at hrc
    simp only [bind_ok_iff, pure_ok_iff, Prod.mk.injEq] at hrc
    obtain ⟨_, _, ⟨w1, y0, y1⟩, hpw, rfl, rfl⟩ := hrc
    exact ⟨ht, w0, y0, y1, rfl, htr, hpw⟩
  · rw [if_pos ht] at hrc; cases hrc

theorem tokBurn_le {w w' : World} {t s amt : Nat} (h : tokBurn w t s amt = .ok w') :
    amt ≠ 0 ∧ amt ≤ bal w (.token t) s ∧ amt ≤ supply w t := by
  obtain ⟨T, hT, h0, hb, hs, _⟩ := tokBurn_ok h
  exact ⟨h0, by simp [bal, hT, hb], by simp [supply, hT, hs]⟩

/-! ### withdrawal: effect -/

theorem withdraw_effect {w w' : World} {t h p a x0 x1 : Nat} {P : PairSt}
    (hP : w.pair p = some P) (hhp : h ≠ p) (hne : P.a0 ≠ P.a1) (hl0 : P.a0 ≠ .token P.lp) (hl1 : P.a1 ≠ .token P.lp)
    (hx : tokSendPair w t h p a .withdraw = .ok (w', .withdraw x0 x1)) :
    t = P.lp ∧ 1 ≤ a ∧ a ≤ bal w (.token P.lp) h ∧
    Spec.c04 (bal w P.a0 p) a (supply w P.lp) x0 = true ∧ Spec.c04 (bal w P.a1 p) a (supply w P.lp) x1 = true ∧
    supply w' P.lp + a = supply w P.lp ∧
    bal w' (.token P.lp) h + a = bal w (.token P.lp) h ∧
    bal w' (.token P.lp) p = bal w (.token P.lp) p ∧
    bal w' P.a0 h = bal w P.a0 h + x0 ∧ bal w' P.a1 h = bal w P.a1 h + x1 ∧
    bal w' P.a0 p + x0 = bal w P.a0 p ∧ bal w' P.a1 p + x1 = bal w P.a1 p ∧
    (∀ b z, z ≠ h → z ≠ p → bal w' b z = bal w b z) ∧
    (∀ u, u ≠ P.lp → supply w' u = supply w u) := by
  obtain ⟨rfl, w0, y0, y1, ho, htr, hpw⟩ := tokSendPair_withdraw_ok hP hx
  injection ho with e0 e1
  subst e0 e1
  obtain ⟨hlp, hx0, hx1, w1, w2, hp0, hp1, hb⟩ := pairWithdraw_ok hpw
  have T := bal_tokTransfer htr
  have Q0 := fun b z => (bal_payout hp0 b z).2.2
  have Q1 := fun b z => (bal_payout hp1 b z).2.2
  have B := bal_tokBurn hb
  have sT := supply_tokTransfer htr
  have s0 := supply_payout hp0
  have s1 := supply_payout hp1
  have sB := supply_tokBurn hb
  obtain ⟨ha0, hab, -, -, -⟩ := Halo.C02.tokTransfer_effect hhp htr
  obtain ⟨-, hbb, hbs⟩ := tokBurn_le hb
  have hx0le := (bal_payout hp0 P.a0 p).2.1
  have hx1le := (bal_payout hp1 P.a1 p).2.1
  have hph : p ≠ h := Ne.symm hhp
  have hne' : P.a1 ≠ P.a0 := Ne.symm hne
  -- reserves and supply seen by the handler are those before the transaction
  have r0 : bal w0 P.a0 p = bal w P.a0 p := by rw [T, if_neg hl0]
  have r1 : bal w0 P.a1 p = bal w P.a1 p := by rw [T, if_neg hl1]
  have r1' : bal w1 P.a1 p = bal w P.a1 p := by rw [Q0, if_neg hne', r1]
  rw [r0, sT] at hx0
  rw [r1, sT] at hx1
  rw [s1, s0, sT] at hbs
  rw [r0] at hx0le
  rw [r1'] at hx1le
  have ha1 : 1 ≤ a := Nat.pos_of_ne_zero ha0
  refine ⟨rfl, ha1, hab, Halo.C04.refund_bounds hx0 ha1 hbs, Halo.C04.refund_bounds hx1 ha1 hbs,
    ?_, ?_, ?_, ?_, ?_, ?_, ?_, ?_, ?_⟩
  · rw [sB, if_pos rfl, s1, s0, sT]; omega
  · simp only [B, Q1, Q0, T]
    simp [hl0, hl1, hhp, Ne.symm hl0, Ne.symm hl1]
    omega
  · simp only [B, Q1, Q0, T]
    simp [hl0, hl1, hph, Ne.symm hl0, Ne.symm hl1]
  · simp only [B, Q1, Q0, T]
    simp [hl0, hl1, hhp, hne, hne']
  · simp only [B, Q1, Q0, T]
    simp [hl0, hl1, hhp, hne, hne']
  · simp only [B, Q1, Q0, T]
    simp [hl0, hl1, hph, hne, hne']
    omega
  · simp only [B, Q1, Q0, T]
    simp [hl0, hl1, hph, hne, hne']
    omega
  · intro b z hz1 hz2
    simp only [B, Q1, Q0, T]
    simp [hz1, hz2]
  · intro u hu
    rw [sB, if_neg hu, s1, s0, sT]

/-! ### ok-introduction for the primitives -/

theorem balOf_intro {w : World} {a : Asset} (z : Nat) (ha : ∀ t, a = .token t → (w.tok t).isSome) :
    balOf w a z = .ok (bal w a z) := by
  cases a with
  | native d => rfl
  | token t =>
    have h1 := ha t rfl
    cases hT : w.tok t with
    | none => simp [hT] at h1
    | some T => simp [balOf, bal, hT]

theorem supplyOf_intro {w : World} {t : Nat} (ht : (w.tok t).isSome) : supplyOf w t = .ok (supply w t) := by
  cases hT : w.tok t with
  | none => simp [hT] at ht
  | some T => simp [supplyOf, supply, hT]

theorem tokTransfer_intro {w : World} {t src amt : Nat} (dst : Nat) (ht : (w.tok t).isSome) (h0 : amt ≠ 0)
    (hle : amt ≤ bal w (.token t) src) : ∃ w', tokTransfer w t src dst amt = .ok w' := by
  cases hT : w.tok t with
  | none => simp [hT] at ht
  | some T =>
    simp only [bal, hT] at hle
    unfold tokTransfer
    simp only [hT]
    rw [if_neg h0, if_neg (by omega)]
    exact ⟨_, rfl⟩

theorem tokBurn_intro {w : World} {t s amt : Nat} (ht : (w.tok t).isSome) (h0 : amt ≠ 0)
    (hle : amt ≤ bal w (.token t) s) (hs : amt ≤ supply w t) : ∃ w', tokBurn w t s amt = .ok w' := by
  cases hT : w.tok t with
  | none => simp [hT] at ht
  | some T =>
    simp only [bal, hT] at hle
    simp only [supply, hT] at hs
    unfold tokBurn
    simp only [hT]
    rw [if_neg h0, if_neg (by omega), if_neg (by omega)]
    exact ⟨_, rfl⟩

theorem bankSend_single_intro {w : World} {src d amt : Nat} (dst : Nat) (h0 : amt ≠ 0) (hle : amt ≤ w.bank src d) :
    ∃ w', bankSend w src dst [(d, amt)] = .ok w' := by
  unfold bankSend
  simp only [List.filter, h0, ne_eq, not_false_eq_true, decide_true]
  simp only [reduceCtorEq, ↓reduceIte, bankMoveList, bankMove1]
  rw [if_neg (by omega)]
  exact ⟨_, rfl⟩

theorem payout_intro {w : World} {src : Nat} {a : Asset} {amt : Nat} (dst : Nat)
    (ha : ∀ t, a = .token t → (w.tok t).isSome) (h0 : amt ≠ 0) (hle : amt ≤ bal w a src) :
    ∃ w', payout w src a dst amt = .ok w' := by
  cases a with
  | native d => exact bankSend_single_intro dst h0 hle
  | token t => exact tokTransfer_intro dst (ha t rfl) h0 hle

/-! ### C20: a legal withdrawal succeeds -/

theorem withdraw_live {w : World} {p h a : Nat} {P : PairSt}
    (hP : w.pair p = some P) (hhp : h ≠ p) (hvalid : w.badAddr h = false)
    (hne : P.a0 ≠ P.a1) (hl0 : P.a0 ≠ .token P.lp) (hl1 : P.a1 ≠ .token P.lp)
    (hlp : (w.tok P.lp).isSome)
    (ht0 : ∀ t, P.a0 = .token t → (w.tok t).isSome) (ht1 : ∀ t, P.a1 = .token t → (w.tok t).isSome)
    (ha1 : 1 ≤ a) (hab : a ≤ bal w (.token P.lp) h) (haS : a ≤ supply w P.lp)
    (hr0 : bal w P.a0 p < W) (hr1 : bal w P.a1 p < W) (hSW : supply w P.lp < W)
    (hent0 : (bal w P.a0 p + 2 * E) * supply w P.lp ≤ bal w P.a0 p * a * E)
    (hent1 : (bal w P.a1 p + 2 * E) * supply w P.lp ≤ bal w P.a1 p * a * E) :
    ∃ w' x0 x1, tokSendPair w P.lp h p a .withdraw = .ok (w', .withdraw x0 x1) ∧ 2 ≤ x0 ∧ 2 ≤ x1 := by
  have ha0 : a ≠ 0 := by omega
  have hSpos : 0 < supply w P.lp := by omega
  have hne' : P.a1 ≠ P.a0 := Ne.symm hne
  have hph : p ≠ h := Ne.symm hhp
  -- the cw20 transfer of the LP tokens to the pair
  obtain ⟨w0, htr⟩ := tokTransfer_intro p hlp ha0 hab
  have T := bal_tokTransfer htr
  have sT := supply_tokTransfer htr
  have k0 := tokTransfer_sameToks htr
  have hpair0 : w0.pair = w.pair := (tokTransfer_same htr).1.pair
  have r0 : bal w0 P.a0 p = bal w P.a0 p := by rw [T, if_neg hl0]
  have r1 : bal w0 P.a1 p = bal w P.a1 p := by rw [T, if_neg hl1]
  -- the refunds
  obtain ⟨x0, hx0⟩ := Halo.C04.refund_total (r := bal w P.a0 p) hSpos haS hr0 hSW
  obtain ⟨x1, hx1⟩ := Halo.C04.refund_total (r := bal w P.a1 p) hSpos haS hr1 hSW
  have h20 := Halo.C04.refund_ge_two hx0 ha1 haS hent0
  have h21 := Halo.C04.refund_ge_two hx1 ha1 haS hent1
  have hle0 := Halo.C04.refund_le_reserve hx0 haS
  have hle1 := Halo.C04.refund_le_reserve hx1 haS
  have hx0' := hx0
  have hx1' := hx1
  unfold withdrawRefund at hx0' hx1'
  simp only [bind_ok_iff] at hx0' hx1'
  obtain ⟨ratio, hratio, hm0⟩ := hx0'
  obtain ⟨ratio', hratio', hm1⟩ := hx1'
  rw [hratio] at hratio'
  injection hratio' with hr; subst hr
  -- queries
  have q0 : balOf w0 P.a0 p = .ok (bal w P.a0 p) := by
    rw [← r0]; exact balOf_intro p (fun t e => by rw [k0]; exact ht0 t e)
  have q1 : balOf w0 P.a1 p = .ok (bal w P.a1 p) := by
    rw [← r1]; exact balOf_intro p (fun t e => by rw [k0]; exact ht1 t e)
  have qS : supplyOf w0 P.lp = .ok (supply w P.lp) := by
    rw [← sT]; exact supplyOf_intro (by rw [k0]; exact hlp)
  -- first payout
  obtain ⟨w1, hp0⟩ := payout_intro (w := w0) (src := p) (a := P.a0) (amt := x0) h
    (fun t e => by rw [k0]; exact ht0 t e) (by omega) (by rw [r0]; exact hle0)
  have Q0 := fun b z => (bal_payout hp0 b z).2.2
  have k1 := payout_sameToks hp0
  have r1' : bal w1 P.a1 p = bal w P.a1 p := by rw [Q0, if_neg hne', r1]
  -- second payout
  obtain ⟨w2, hp1⟩ := payout_intro (w := w1) (src := p) (a := P.a1) (amt := x1) h
    (fun t e => by rw [k1, k0]; exact ht1 t e) (by omega) (by rw [r1']; exact hle1)
  have Q1 := fun b z => (bal_payout hp1 b z).2.2
  have k2 := payout_sameToks hp1
  -- burn
  have hbal2 : bal w2 (.token P.lp) p = bal w (.token P.lp) p + a := by
    rw [Q1, if_neg (Ne.symm hl1), Q0, if_neg (Ne.symm hl0), T, if_pos rfl, if_pos rfl, if_neg hph]
  have hsup2 : supply w2 P.lp = supply w P.lp := by
    rw [supply_payout hp1, supply_payout hp0, sT]
  obtain ⟨w3, hb⟩ := tokBurn_intro (w := w2) (t := P.lp) (s := p) (amt := a)
    (by rw [k2, k1, k0]; exact hlp) ha0 (by omega) (by omega)
  refine ⟨w3, x0, x1, ?_, h20, h21⟩
  unfold tokSendPair
  rw [htr, ok_bind]
  unfold pairReceive
  rw [hpair0]
  simp only [hP, ne_eq, not_true_eq_false, ↓reduceIte]
  have hv0 : validAddr w0 h = .ok () := validAddr_ok_iff.mpr (by rw [(tokTransfer_same htr).1.badAddr]; exact hvalid)
  rw [hv0, ok_bind]
  unfold pairWithdraw
  simp only [q0, q1, qS, hratio, hm0, hm1, hp0, hp1, hb, ok_bind]
  rfl

/-! ### provision: inversion -/

theorem select_ok {as0 as1 a : Asset} {am0 am1 d : Nat}
    (h : (if as0 = a then pure am0 else if as1 = a then pure am1 else .error .abort : M Nat) = .ok d) :
    (as0 = a ∧ d = am0) ∨ (as0 ≠ a ∧ as1 = a ∧ d = am1) := by
  by_cases h0 : as0 = a
  · rw [if_pos h0, pure_ok_iff] at h; exact Or.inl ⟨h0, h.symm⟩
  · rw [if_neg h0] at h
    by_cases h1 : as1 = a
    · rw [if_pos h1, pure_ok_iff] at h; exact Or.inr ⟨h0, h1, h.symm⟩
    · rw [if_neg h1] at h; cases h

theorem netPool_ok {a : Asset} {r d v : Nat}
    (h : (match a with | .token _ => pure r | .native _ => Cw.checkedSub r d : M Nat) = .ok v) :
    v = (match (generalizing := false) a with | .native _ => r - d | .token _ => r) := by
  cases a with
  | native x => simp only [Cw.checkedSub_ok] at h; exact h.2
  | token x => simp only [pure_ok_iff] at h; exact h.symm

theorem unwrap_ok {x : M Nat} {v : Nat}
    (h : (match x with | .ok m => pure m | .error _ => .error .abort : M Nat) = .ok v) : x = .ok v := by
  cases x with
  | error e => cases h
  | ok m => simp only [pure_ok_iff] at h; rw [h]

theorem sent_c09 {a : Asset} {am d : Nat} {funds : List (Nat × Nat)} {u : Unit}
    (h : assertSent a am funds = .ok u) (e : a = .native d) : Spec.c09 d am funds = true := by
  subst e
  exact (Halo.Props.C09.assertSent_iff d am funds).1 h

/-- the cw20 deposit pulled by `provide_liquidity` for one asset (nothing for a native asset) -/
theorem pull_ok {w w1 : World} {a : Asset} {p s d : Nat}
    (h : (match a with | .token t => tokTransferFrom w t p s p d | .native _ => pure w : M World) = .ok w1) :
    (∀ b, b ≠ a → ∀ z, bal w1 b z = bal w b z) ∧
    (∀ b z, z ≠ p → z ≠ s → bal w1 b z = bal w b z) ∧
    (∀ u, supply w1 u = supply w u) ∧
    (∀ d', a = .native d' → w1 = w) ∧
    (∀ t, a = .token t → d ≤ bal w a s ∧ ∀ z, bal w1 a z =
        if z = p then (if z = s then bal w a z - d else bal w a z) + d
        else if z = s then bal w a z - d else bal w a z) := by
  cases a with
  | native x =>
    simp only [pure_ok_iff] at h
    subst h
    exact ⟨fun _ _ _ => rfl, fun _ _ _ _ => rfl, fun _ => rfl, fun _ _ => rfl, fun t e => by cases e⟩
  | token t =>
    simp only at h
    have B := bal_tokTransferFrom h
    refine ⟨?_, ?_, supply_tokTransferFrom h, ?_, ?_⟩
    · intro b hb z; rw [B, if_neg hb]
    · intro b z hz1 hz2; rw [B, if_neg hz1, if_neg hz2]; simp
    · intro _ e; cases e
    · intro t' e
      obtain ⟨T, al, hT, _, _, hle, _⟩ := tokTransferFrom_ok h
      refine ⟨by simp [bal, hT, hle], fun z => ?_⟩
      rw [B, if_pos rfl]

theorem pairProvide_ok {w w' : World} {p : Nat} {P : PairSt} {s : Nat} {funds : List (Nat × Nat)}
    {as0 as1 : Asset} {am0 am1 : Nat} {tol rcv : Option Nat} {m : Nat}
    (h : pairProvide w p P s funds as0 am0 as1 am1 tol rcv = .ok (w', m)) :
    assertSent as0 am0 funds = .ok () ∧ assertSent as1 am1 funds = .ok () ∧
    ∃ d0 d1 share w1 w2 w3,
      ((as0 = P.a0 ∧ d0 = am0) ∨ (as0 ≠ P.a0 ∧ as1 = P.a0 ∧ d0 = am1)) ∧
      ((as0 = P.a1 ∧ d1 = am0) ∨ (as0 ≠ P.a1 ∧ as1 = P.a1 ∧ d1 = am1)) ∧
      lpShare s P.req (supply w P.lp) d0 d1
        (match P.a0 with | .native _ => bal w P.a0 p - d0 | .token _ => bal w P.a0 p)
        (match P.a1 with | .native _ => bal w P.a1 p - d1 | .token _ => bal w P.a1 p) = .ok share ∧
      share ≠ 0 ∧
      ((supply w P.lp = 0 ∧ share = m + 1 ∧ tokMint w2 P.lp p P.lp 1 = .ok w3) ∨
       (supply w P.lp ≠ 0 ∧ share = m ∧ w3 = w2)) ∧
      (match P.a0 with | .token t => tokTransferFrom w t p s p d0 | .native _ => pure w : M World) = .ok w1 ∧
      (match P.a1 with | .token t => tokTransferFrom w1 t p s p d1 | .native _ => pure w1 : M World) = .ok w2 ∧
      tokMint w3 P.lp p (rcv.getD s) m = .ok w' := by
  unfold pairProvide at h
  simp only [bind_ok_iff] at h
  obtain ⟨⟨⟩, hs0, ⟨⟩, hs1, r0, hr0, r1, hr1, d0, hd0, d1, hd1, s0, hs0', s1, hs1', pr, hpr, _, hfu, p0, hp0, p1, hp1,
    ⟨⟩, hsl, S, hS, share, hsh, hrest⟩ := h
  have e0 := balOf_ok hr0
  have e1 := balOf_ok hr1
  obtain ⟨eS, -⟩ := supplyOf_ok hS
  have ep0 := netPool_ok hp0
  have ep1 := netPool_ok hp1
  have hsh' := unwrap_ok hsh
  subst e0 e1 eS ep0 ep1
  by_cases hz : share = 0
  · rw [if_pos hz] at hrest; cases hrest
  · rw [if_neg hz] at hrest
    simp only [bind_ok_iff, pure_ok_iff, Prod.mk.injEq] at hrest
    obtain ⟨share', hsh1, w1, hw1, w2, hw2, w3, hw3, _, _, w4, hw4, rfl, rfl⟩ := hrest
    refine ⟨hs0, hs1, d0, d1, share, w1, w2, w3, select_ok hd0, select_ok hd1, hsh', hz, ?_, hw1, hw2, hw4⟩
    by_cases hS0 : supply w P.lp = 0
    · rw [if_pos hS0] at hsh1 hw3
      rw [Cw.checkedSub_ok] at hsh1
      exact Or.inl ⟨hS0, by omega, hw3⟩
    · rw [if_neg hS0] at hsh1 hw3
      rw [pure_ok_iff] at hsh1 hw3
      exact Or.inr ⟨hS0, hsh1, hw3.symm⟩

/-! ### provision: effect -/

theorem provide_effect_pos {w0 w' : World} {p : Nat} {P : PairSt} {s : Nat} {funds : List (Nat × Nat)}
    {as0 as1 : Asset} {am0 am1 : Nat} {tol rcv : Option Nat} {m : Nat}
    (hsp : s ≠ p) (hne : P.a0 ≠ P.a1) (hl0 : P.a0 ≠ .token P.lp) (hl1 : P.a1 ≠ .token P.lp)
    (hS : supply w0 P.lp ≠ 0)
    (h : pairProvide w0 p P s funds as0 am0 as1 am1 tol rcv = .ok (w', m)) :
    ∃ d0 d1,
      ((as0 = P.a0 ∧ d0 = am0) ∨ (as0 ≠ P.a0 ∧ as1 = P.a0 ∧ d0 = am1)) ∧
      ((as0 = P.a1 ∧ d1 = am0) ∨ (as0 ≠ P.a1 ∧ as1 = P.a1 ∧ d1 = am1)) ∧
      (∀ d, P.a0 = .native d → Spec.c09 d d0 funds = true ∧ bal w' P.a0 p = bal w0 P.a0 p) ∧
      (∀ d, P.a1 = .native d → Spec.c09 d d1 funds = true ∧ bal w' P.a1 p = bal w0 P.a1 p) ∧
      (∀ t, P.a0 = .token t → bal w' P.a0 p = bal w0 P.a0 p + d0 ∧ bal w' P.a0 s + d0 = bal w0 P.a0 s) ∧
      (∀ t, P.a1 = .token t → bal w' P.a1 p = bal w0 P.a1 p + d1 ∧ bal w' P.a1 s + d1 = bal w0 P.a1 s) ∧
      1 ≤ m ∧
      Spec.c05Pos (supply w0 P.lp) d0 d1
        (match P.a0 with | .native _ => bal w0 P.a0 p - d0 | .token _ => bal w0 P.a0 p)
        (match P.a1 with | .native _ => bal w0 P.a1 p - d1 | .token _ => bal w0 P.a1 p) m = true ∧
      supply w' P.lp = supply w0 P.lp + m ∧
      bal w' (.token P.lp) (rcv.getD s) = bal w0 (.token P.lp) (rcv.getD s) + m ∧
      (∀ b z, z ≠ s → z ≠ p → z ≠ rcv.getD s → bal w' b z = bal w0 b z) := by
  obtain ⟨hs0, hs1, d0, d1, share, w1, w2, w3, sel0, sel1, hshare, hnz, hcase, hw1, hw2, hmint⟩ := pairProvide_ok h
  rcases hcase with ⟨h0, _, _⟩ | ⟨_, rfl, rfl⟩
  · exact absurd h0 hS
  obtain ⟨A1, A2, A3, A4, A5⟩ := pull_ok hw1
  obtain ⟨B1, B2, B3, B4, B5⟩ := pull_ok hw2
  have Mb := bal_tokMint hmint
  have Ms := supply_tokMint hmint
  have hne' : P.a1 ≠ P.a0 := Ne.symm hne
  have hps : p ≠ s := Ne.symm hsp
  refine ⟨d0, d1, sel0, sel1, ?_, ?_, ?_, ?_, Nat.pos_of_ne_zero hnz,
    Halo.C04.share_bounds_pos hS hshare, ?_, ?_, ?_⟩
  · intro d e
    refine ⟨?_, ?_⟩
    · rcases sel0 with ⟨e0, rfl⟩ | ⟨_, e1, rfl⟩
      · exact sent_c09 hs0 (e0.trans e)
      · exact sent_c09 hs1 (e1.trans e)
    · rw [Mb, if_neg (fun hh => hl0 hh.1), B1 _ hne, A4 d e]
  · intro d e
    refine ⟨?_, ?_⟩
    · rcases sel1 with ⟨e0, rfl⟩ | ⟨_, e1, rfl⟩
      · exact sent_c09 hs0 (e0.trans e)
      · exact sent_c09 hs1 (e1.trans e)
    · rw [Mb, if_neg (fun hh => hl1 hh.1), B4 d e]
      exact A1 _ hne' _
  · intro t e
    obtain ⟨hle, hb⟩ := A5 t e
    rw [Mb, if_neg (fun hh => hl0 hh.1), B1 _ hne, Mb, if_neg (fun hh => hl0 hh.1), B1 _ hne, hb, hb]
    simp only [hsp, hps, ↓reduceIte, true_and]
    omega
  · intro t e
    obtain ⟨hle, hb⟩ := B5 t e
    rw [Mb, if_neg (fun hh => hl1 hh.1), Mb, if_neg (fun hh => hl1 hh.1), hb, hb] 
    rw [A1 _ hne'] at hle
    simp only [hsp, hps, ↓reduceIte, A1 _ hne', true_and]
    omega
  · rw [Ms, if_pos rfl, B3, A3]
  · rw [Mb, if_pos ⟨rfl, rfl⟩, B1 _ (Ne.symm hl1), A1 _ (Ne.symm hl0)]
  · intro b z hz1 hz2 hz3
    rw [Mb, if_neg (fun hh => hz3 hh.2), B2 _ _ hz2 hz1, A2 _ _ hz2 hz1]

theorem provide_effect_empty {w0 w' : World} {p : Nat} {P : PairSt} {s : Nat} {funds : List (Nat × Nat)}
    {as0 as1 : Asset} {am0 am1 : Nat} {tol rcv : Option Nat} {m : Nat}
    (hl0 : P.a0 ≠ .token P.lp) (hl1 : P.a1 ≠ .token P.lp) (hrl : rcv.getD s ≠ P.lp)
    (hS : supply w0 P.lp = 0)
    (h : pairProvide w0 p P s funds as0 am0 as1 am1 tol rcv = .ok (w', m)) :
    ∃ d0 d1,
      ((as0 = P.a0 ∧ d0 = am0) ∨ (as0 ≠ P.a0 ∧ as1 = P.a0 ∧ d0 = am1)) ∧
      ((as0 = P.a1 ∧ d1 = am0) ∨ (as0 ≠ P.a1 ∧ as1 = P.a1 ∧ d1 = am1)) ∧
      Spec.c05Empty s P.req d0 d1 (m + 1) = true ∧ 1 ≤ m ∧
      supply w' P.lp = m + 1 ∧
      bal w' (.token P.lp) P.lp = bal w0 (.token P.lp) P.lp + 1 ∧
      bal w' (.token P.lp) (rcv.getD s) = bal w0 (.token P.lp) (rcv.getD s) + m := by
  obtain ⟨hs0, hs1, d0, d1, share, w1, w2, w3, sel0, sel1, hshare, hnz, hcase, hw1, hw2, hmint⟩ := pairProvide_ok h
  rcases hcase with ⟨_, rfl, hm1⟩ | ⟨h0, _, _⟩
  swap
  · exact absurd hS h0
  obtain ⟨A1, A2, A3, A4, A5⟩ := pull_ok hw1
  obtain ⟨B1, B2, B3, B4, B5⟩ := pull_ok hw2
  have Mb := bal_tokMint hmint
  have Ms := supply_tokMint hmint
  have Rb := bal_tokMint hm1
  have Rs := supply_tokMint hm1
  obtain ⟨_, _, hm0, _⟩ := tokMint_ok hmint
  rw [hS] at hshare
  refine ⟨d0, d1, sel0, sel1, (Halo.C04.share_bounds_empty hshare).1, Nat.pos_of_ne_zero hm0, ?_, ?_, ?_⟩
  · rw [Ms, if_pos rfl, Rs, if_pos rfl, B3, A3, hS]; omega
  · rw [Mb, if_neg (fun hh => hrl hh.2.symm), Rb, if_pos ⟨rfl, rfl⟩, B1 _ (Ne.symm hl1), A1 _ (Ne.symm hl0)]
  · rw [Mb, if_pos ⟨rfl, rfl⟩, Rb, if_neg (fun hh => hrl hh.2), B1 _ (Ne.symm hl1), A1 _ (Ne.symm hl0)]

/-! ### sums of balances under point updates -/

theorem sum_pointUpd {f g : Nat → Nat} {c : Nat} (hfg : ∀ z, z ≠ c → g z = f z) :
    ∀ L : List Nat, L.Nodup →
      (L.map g).sum + (if c ∈ L then f c else 0) = (L.map f).sum + (if c ∈ L then g c else 0)
  | [], _ => by simp
  | x :: L, hn => by
    have hx : x ∉ L := (List.nodup_cons.mp hn).1
    have hL := (List.nodup_cons.mp hn).2
    have ih := sum_pointUpd hfg L hL
    by_cases hxc : x = c
    · subst hxc
      simp only [hx, if_false, Nat.add_zero] at ih
      simp only [List.map_cons, List.sum_cons, List.mem_cons, true_or, if_true, ih]
      omega
    · have hcx : c ≠ x := Ne.symm hxc
      simp only [List.map_cons, List.sum_cons, List.mem_cons, hcx, false_or, hfg x hxc]
      omega

theorem sum_zero {f : Nat → Nat} (hf : ∀ z, f z = 0) : ∀ L : List Nat, (L.map f).sum = 0
  | [] => rfl
  | x :: L => by simp only [List.map_cons, List.sum_cons, hf x, sum_zero hf L]

theorem tokSumOK_congr {w w' : World} {t : Nat} (hb : ∀ z, bal w' (.token t) z = bal w (.token t) z)
    (hs : supply w' t = supply w t) (h : TokSumOK w t) : TokSumOK w' t := by
  intro L hL
  have e : sumBal w' (.token t) L = sumBal w (.token t) L := by
    unfold sumBal
    congr 1
    exact List.map_congr_left (fun z _ => hb z)
  rw [e, hs]
  exact h L hL

theorem tokSumOK_move {w w' : World} {t src dst amt : Nat} (hle : amt ≤ bal w (.token t) src)
    (hb : ∀ z, bal w' (.token t) z =
      if z = dst then (if z = src then bal w (.token t) z - amt else bal w (.token t) z) + amt
      else if z = src then bal w (.token t) z - amt else bal w (.token t) z)
    (hs : supply w' t = supply w t) (h : TokSumOK w t) : TokSumOK w' t := by
  intro L hL
  have H := h L hL
  unfold sumBal at H ⊢
  rw [hs]
  have e1 := sum_pointUpd (f := bal w (.token t))
    (g := fun z => if z = src then bal w (.token t) z - amt else bal w (.token t) z) (c := src)
    (fun z hz => by simp only [if_neg hz]) L hL
  have e2 := sum_pointUpd
    (f := fun z => if z = src then bal w (.token t) z - amt else bal w (.token t) z)
    (g := bal w' (.token t)) (c := dst)
    (fun z hz => by rw [hb, if_neg hz]) L hL
  rw [hb dst] at e2
  simp only [if_true] at e1 e2
  by_cases hsL : src ∈ L
  · simp only [hsL, if_true] at e1
    by_cases hdL : dst ∈ L
    · simp only [hdL, if_true] at e2; omega
    · simp only [hdL, if_false] at e2; omega
  · simp only [hsL, if_false] at e1
    have H' := h (src :: L) (List.nodup_cons.mpr ⟨hsL, hL⟩)
    unfold sumBal at H'
    simp only [List.map_cons, List.sum_cons] at H'
    by_cases hdL : dst ∈ L
    · simp only [hdL, if_true] at e2; omega
    · simp only [hdL, if_false] at e2; omega

theorem tokSumOK_mint {w w' : World} {t dst amt : Nat}
    (hb : ∀ z, bal w' (.token t) z = if z = dst then bal w (.token t) z + amt else bal w (.token t) z)
    (hs : supply w' t = supply w t + amt) (h : TokSumOK w t) : TokSumOK w' t := by
  intro L hL
  have H := h L hL
  unfold sumBal at H ⊢
  rw [hs]
  have e := sum_pointUpd (f := bal w (.token t)) (g := bal w' (.token t)) (c := dst)
    (fun z hz => by rw [hb, if_neg hz]) L hL
  rw [hb dst] at e
  simp only [if_true] at e
  by_cases hdL : dst ∈ L
  · simp only [hdL, if_true] at e; omega
  · simp only [hdL, if_false] at e; omega

theorem tokSumOK_burn {w w' : World} {t s amt : Nat} (hle : amt ≤ bal w (.token t) s)
    (hb : ∀ z, bal w' (.token t) z = if z = s then bal w (.token t) z - amt else bal w (.token t) z)
    (hs : supply w' t = supply w t - amt) (h : TokSumOK w t) : TokSumOK w' t := by
  intro L hL
  have H := h L hL
  unfold sumBal at H ⊢
  rw [hs]
  have e := sum_pointUpd (f := bal w (.token t)) (g := bal w' (.token t)) (c := s)
    (fun z hz => by rw [hb, if_neg hz]) L hL
  rw [hb s] at e
  simp only [if_true] at e
  by_cases hsL : s ∈ L
  · simp only [hsL, if_true] at e; omega
  · simp only [hsL, if_false] at e
    have H' := h (s :: L) (List.nodup_cons.mpr ⟨hsL, hL⟩)
    unfold sumBal at H'
    simp only [List.map_cons, List.sum_cons] at H'
    omega

/-! ### the ledger invariant pair carried through every handler -/

/-- what every handler guarantees of the token ledgers: conservation is preserved, and an account that is
not an admissible source (`ok`) never loses tokens -/
structure Good (ok : Nat → Prop) (w w' : World) : Prop where
  sum : ∀ t, TokSumOK w t → TokSumOK w' t
  keep : ∀ t x, ¬ ok x → bal w (.token t) x ≤ bal w' (.token t) x

theorem Good.refl (ok : Nat → Prop) (w : World) : Good ok w w := ⟨fun _ h => h, fun _ _ _ => Nat.le_refl _⟩

theorem Good.trans {ok : Nat → Prop} {a b c : World} (h1 : Good ok a b) (h2 : Good ok b c) : Good ok a c :=
  ⟨fun t h => h2.sum t (h1.sum t h), fun t x hx => Nat.le_trans (h1.keep t x hx) (h2.keep t x hx)⟩

theorem good_of_eq {ok : Nat → Prop} {w w' : World}
    (hb : ∀ u z, bal w' (.token u) z = bal w (.token u) z) (hs : ∀ u, supply w' u = supply w u) : Good ok w w' :=
  ⟨fun t h => tokSumOK_congr (hb t) (hs t) h, fun t x _ => by rw [hb]⟩

theorem good_of_tok {ok : Nat → Prop} {w w' : World} (h : w'.tok = w.tok) : Good ok w w' :=
  good_of_eq (fun u z => by simp [bal, h]) (fun u => by simp [supply, h])

theorem good_move {ok : Nat → Prop} {w w' : World} {t src dst amt : Nat} (hsrc : ok src)
    (hle : amt ≤ bal w (.token t) src)
    (hb : ∀ a z, bal w' a z =
      if a = .token t then
        (if z = dst then (if z = src then bal w a z - amt else bal w a z) + amt
         else if z = src then bal w a z - amt else bal w a z)
      else bal w a z)
    (hs : ∀ u, supply w' u = supply w u) : Good ok w w' := by
  constructor
  · intro u h
    by_cases hu : u = t
    · subst hu
      exact tokSumOK_move hle (fun z => by rw [hb, if_pos rfl]) (hs u) h
    · exact tokSumOK_congr (fun z => by rw [hb, if_neg (by simpa using hu)]) (hs u) h
  · intro u x hx
    have hxs : x ≠ src := fun e => hx (e ▸ hsrc)
    rw [hb]
    simp only [if_neg hxs]
    split
    · split <;> omega
    · exact Nat.le_refl _

theorem good_transfer {ok : Nat → Prop} {w w' : World} {t src dst amt : Nat} (hsrc : ok src)
    (h : tokTransfer w t src dst amt = .ok w') : Good ok w w' := by
  obtain ⟨T, hT, _, hle, _⟩ := tokTransfer_ok h
  exact good_move hsrc (by simp [bal, hT, hle]) (bal_tokTransfer h) (supply_tokTransfer h)

theorem good_transferFrom {ok : Nat → Prop} {w w' : World} {t sp owner dst amt : Nat} (hsrc : ok owner)
    (h : tokTransferFrom w t sp owner dst amt = .ok w') : Good ok w w' := by
  obtain ⟨T, al, hT, _, _, hle, _⟩ := tokTransferFrom_ok h
  exact good_move hsrc (by simp [bal, hT, hle]) (bal_tokTransferFrom h) (supply_tokTransferFrom h)

theorem good_mint {ok : Nat → Prop} {w w' : World} {t s dst amt : Nat}
    (h : tokMint w t s dst amt = .ok w') : Good ok w w' := by
  have B := bal_tokMint h
  have S := supply_tokMint h
  constructor
  · intro u hk
    by_cases hu : u = t
    · subst hu
      exact tokSumOK_mint (dst := dst) (amt := amt) (fun z => by rw [B]; simp) (by rw [S, if_pos rfl]) hk
    · exact tokSumOK_congr (fun z => by rw [B, if_neg (by simp [hu])]) (by rw [S, if_neg hu]) hk
  · intro u x _
    rw [B]
    split
    · omega
    · exact Nat.le_refl _

theorem good_burn {ok : Nat → Prop} {w w' : World} {t s amt : Nat} (hsrc : ok s)
    (h : tokBurn w t s amt = .ok w') : Good ok w w' := by
  have B := bal_tokBurn h
  have S := supply_tokBurn h
  obtain ⟨_, hle, _⟩ := tokBurn_le h
  constructor
  · intro u hk
    by_cases hu : u = t
    · subst hu
      exact tokSumOK_burn hle (fun z => by rw [B]; simp) (by rw [S, if_pos rfl]) hk
    · exact tokSumOK_congr (fun z => by rw [B, if_neg (by simp [hu])]) (by rw [S, if_neg hu]) hk
  · intro u x hx
    have hxs : x ≠ s := fun e => hx (e ▸ hsrc)
    rw [B, if_neg (fun hh => hxs hh.2)]

theorem good_incAllow {ok : Nat → Prop} {w w' : World} {t o s amt : Nat}
    (h : tokIncAllow w t o s amt = .ok w') : Good ok w w' :=
  good_of_eq (fun _ z => bal_tokIncAllow h _ z) (supply_tokIncAllow h)

theorem good_decAllow {ok : Nat → Prop} {w w' : World} {t o s amt : Nat}
    (h : tokDecAllow w t o s amt = .ok w') : Good ok w w' :=
  good_of_eq (fun _ z => bal_tokDecAllow h _ z) (supply_tokDecAllow h)

theorem good_burnFrom {ok : Nat → Prop} {w w' : World} {t sp o amt : Nat} (hsrc : ok o)
    (h : tokBurnFrom w t sp o amt = .ok w') : Good ok w w' := by
  have B := bal_tokBurnFrom h
  have S := supply_tokBurnFrom h
  obtain ⟨T, al, hT, _, _, hle0, _, _⟩ := tokBurnFrom_ok h
  have hle : amt ≤ bal w (.token t) o := by simp [bal, hT, hle0]
  constructor
  · intro u hk
    by_cases hu : u = t
    · subst hu
      exact tokSumOK_burn hle (fun z => by rw [B]; simp) (by rw [S, if_pos rfl]) hk
    · exact tokSumOK_congr (fun z => by rw [B, if_neg (by simp [hu])]) (by rw [S, if_neg hu]) hk
  · intro u x hx
    have hxs : x ≠ o := fun e => hx (e ▸ hsrc)
    rw [B, if_neg (fun hh => hxs hh.2)]

/-- a freshly instantiated cw20 contract with no balances and no supply -/
theorem good_create {ok : Nat → Prop} {w w' : World} {nl : Nat} {T : Token}
    (hfresh : w.tok nl = none) (hTb : ∀ z, T.bal z = 0)
    (htok : w'.tok = fun a => if a = nl then some T else w.tok a) : Good ok w w' := by
  have hbne : ∀ u, u ≠ nl → ∀ z, bal w' (.token u) z = bal w (.token u) z := by
    intro u hu z; simp [bal, htok, hu]
  have hsne : ∀ u, u ≠ nl → supply w' u = supply w u := by
    intro u hu; simp [supply, htok, hu]
  have hbnl : ∀ z, bal w' (.token nl) z = 0 := by
    intro z; simp [bal, htok, hTb]
  constructor
  · intro u hk
    by_cases hu : u = nl
    · subst hu
      intro L _
      unfold sumBal
      rw [sum_zero hbnl]
      exact Nat.zero_le _
    · exact tokSumOK_congr (hbne u hu) (hsne u hu) hk
  · intro u x _
    by_cases hu : u = nl
    · subst hu
      have : bal w (.token u) x = 0 := by simp [bal, hfresh]
      omega
    · rw [hbne u hu]

/-! ### every handler is `Good` -/

section handlers
variable {ok : Nat → Prop}

theorem good_bankSend {w w' : World} {s d : Nat} {cs : List (Nat × Nat)}
    (h : bankSend w s d cs = .ok w') : Good ok w w' := good_of_tok (bankSend_same h).2

theorem good_attach {w w' : World} {s d : Nat} {cs : List (Nat × Nat)}
    (h : attach w s d cs = .ok w') : Good ok w w' := good_of_tok (attach_same h).2

theorem good_payout {w w' : World} {src : Nat} {a : Asset} {dst amt : Nat} (hsrc : ok src)
    (h : payout w src a dst amt = .ok w') : Good ok w w' := by
  cases a with
  | native d => exact good_bankSend h
  | token t => exact good_transfer hsrc h

theorem sgood_pairSwap {w w' : World} {p : Nat} {P : PairSt} {funds : List (Nat × Nat)} {trader : Nat}
    {offer : Asset} {amt : Nat} {b ms tt : Option Nat} {o : SwapOut} (hp : ok p)
    (h : pairSwap w p P funds trader offer amt b ms tt = .ok (w', o)) : Same w w' ∧ Good ok w w' := by
  obtain ⟨_, _, _, x, y, ask, od, ad, n, s, k, _, _, _, _, hw⟩ := Halo.C02.pairSwap_ok h
  rcases hw with ⟨_, rfl⟩ | ⟨_, hp'⟩
  · exact ⟨Same.refl _, Good.refl _ _⟩
  · exact ⟨payout_same hp', good_payout hp hp'⟩

theorem good_pairWithdraw {w : World} {p : Nat} {P : PairSt} {s a : Nat} {r : World × Nat × Nat} (hp : ok p)
    (h : pairWithdraw w p P s a = .ok r) : Good ok w r.1 := by
  obtain ⟨w', x0, x1⟩ := r
  obtain ⟨_, _, _, w1, w2, h0, h1, hb⟩ := pairWithdraw_ok h
  exact ((good_payout hp h0).trans (good_payout hp h1)).trans (good_burn hp hb)

theorem good_pull {w w1 : World} {a : Asset} {p s d : Nat} (hs : ok s)
    (h : (match a with | .token t => tokTransferFrom w t p s p d | .native _ => pure w : M World) = .ok w1) :
    Good ok w w1 := by
  cases a with
  | native x => simp only [pure_ok_iff] at h; subst h; exact Good.refl _ _
  | token t => exact good_transferFrom hs h

theorem good_pairProvide {w : World} {p : Nat} {P : PairSt} {s : Nat} {funds : List (Nat × Nat)}
    {as0 as1 : Asset} {am0 am1 : Nat} {tol rcv : Option Nat} {r : World × Nat} (hs : ok s)
    (h : pairProvide w p P s funds as0 am0 as1 am1 tol rcv = .ok r) : Good ok w r.1 := by
  obtain ⟨w', m⟩ := r
  obtain ⟨_, _, d0, d1, share, w1, w2, w3, _, _, _, _, hcase, hw1, hw2, hmint⟩ := pairProvide_ok h
  have g12 := (good_pull hs hw1).trans (good_pull hs hw2)
  have g3 : Good ok w2 w3 := by
    rcases hcase with ⟨_, _, hm⟩ | ⟨_, _, rfl⟩
    · exact good_mint hm
    · exact Good.refl _ _
  exact (g12.trans g3).trans (good_mint hmint)

theorem pairReceive_swap_ok {w : World} {p t f amount : Nat} {offer : Asset} {amt : Nat} {b ms tt : Option Nat}
    {r : World × Out} (h : pairReceive w p t f amount (.swap offer amt b ms tt) = .ok r) :
    ∃ P o, w.pair p = some P ∧ pairSwap w p P [] f offer amt b ms tt = .ok (r.1, o) := by
  unfold pairReceive at h
  cases hP : w.pair p with
  | none => simp [hP] at h
  | some P =>
    simp only [hP] at h
    split at h
    · cases h
    simp only [bind_ok_iff] at h
    obtain ⟨_, _, _, _, h⟩ := h
    split at h
    · cases h
    split at h
    · cases h
    simp only [bind_ok_iff, pure_ok_iff] at h
    obtain ⟨_, _, ⟨w1, o⟩, hsw, rfl⟩ := h
    exact ⟨P, o, rfl, hsw⟩

theorem good_pairReceive {w : World} {p t f amount : Nat} {hk : Hook} {r : World × Out} (hp : ok p)
    (h : pairReceive w p t f amount hk = .ok r) : Good ok w r.1 := by
  cases hk with
  | swap offer amt b ms tt =>
    obtain ⟨P, o, _, hsw⟩ := pairReceive_swap_ok h
    exact (sgood_pairSwap hp hsw).2
  | withdraw =>
    unfold pairReceive at h
    cases hP : w.pair p with
    | none => simp [hP] at h
    | some P =>
      simp only [hP] at h
      split at h
      · cases h
      simp only [bind_ok_iff, pure_ok_iff] at h
      obtain ⟨_, _, ⟨w1, y0, y1⟩, hpw, rfl⟩ := h
      exact good_pairWithdraw hp hpw
  | routerOps ops mn tt =>
    unfold pairReceive at h
    cases hP : w.pair p with
    | none => simp [hP] at h
    | some P => simp [hP] at h
  | garbage =>
    unfold pairReceive at h
    cases hP : w.pair p with
    | none => simp [hP] at h
    | some P => simp [hP] at h

theorem good_tokSendPair {w : World} {t sender p amt : Nat} {hk : Hook} {r : World × Out}
    (hs : ok sender) (hp : ok p) (h : tokSendPair w t sender p amt hk = .ok r) : Good ok w r.1 := by
  unfold tokSendPair at h
  simp only [bind_ok_iff] at h
  obtain ⟨w1, h1, h2⟩ := h
  exact (good_transfer hs h1).trans (good_pairReceive hp h2)

theorem sgood_tokSendPair_swap {w : World} {t sender p amount : Nat} {offer : Asset} {amt : Nat}
    {b ms tt : Option Nat} {r : World × Out}
    (hs : ok sender) (hpairs : ∀ q, (w.pair q).isSome → ok q)
    (h : tokSendPair w t sender p amount (.swap offer amt b ms tt) = .ok r) : Same w r.1 ∧ Good ok w r.1 := by
  unfold tokSendPair at h
  simp only [bind_ok_iff] at h
  obtain ⟨w1, h1, h2⟩ := h
  have s1 := (tokTransfer_same h1).1
  obtain ⟨P, o, hP, hsw⟩ := pairReceive_swap_ok h2
  rw [s1.pair] at hP
  obtain ⟨s2, g2⟩ := sgood_pairSwap (hpairs p (by simp [hP])) hsw
  exact ⟨s1.trans s2, (good_transfer hs h1).trans g2⟩

theorem pairUpdateDecimals_tok {w w' : World} {p s d da db : Nat}
    (h : pairUpdateDecimals w p s d da db = .ok w') : w'.tok = w.tok := by
  unfold pairUpdateDecimals at h
  split at h
  · cases h
  split at h
  · cases h
  injection h with h
  subst h
  rfl

theorem good_pairExec {w : World} {s p : Nat} {funds : List (Nat × Nat)} {m : PairMsg} {r : World × Out}
    (hs : ok s) (hp : ok p) (h : pairExec w s p funds m = .ok r) : Good ok w r.1 := by
  unfold pairExec at h
  cases hP : w.pair p with
  | none => simp [hP] at h
  | some P =>
    simp only [hP, bind_ok_iff] at h
    obtain ⟨w0, h0, h⟩ := h
    refine (good_attach h0).trans ?_
    cases m with
    | provide as0 am0 as1 am1 tol rcv =>
      simp only [bind_ok_iff, pure_ok_iff] at h
      obtain ⟨⟨w1, sh⟩, h1, rfl⟩ := h
      exact good_pairProvide hs h1
    | swap offer amt b ms tt =>
      cases offer with
      | token x => simp at h
      | native d =>
        simp only [bind_ok_iff, pure_ok_iff] at h
        obtain ⟨_, _, ⟨w1, o⟩, h1, rfl⟩ := h
        exact (sgood_pairSwap hp h1).2
    | receive f amount hk => exact good_pairReceive hp h
    | updateDecimals d da db =>
      simp only [bind_ok_iff, pure_ok_iff] at h
      obtain ⟨w1, h1, rfl⟩ := h
      exact good_of_tok (pairUpdateDecimals_tok h1)

theorem sgood_pairExec_swap {w : World} {s p : Nat} {funds : List (Nat × Nat)} {offer : Asset} {amt : Nat}
    {b ms tt : Option Nat} {r : World × Out}
    (hpairs : ∀ q, (w.pair q).isSome → ok q)
    (h : pairExec w s p funds (.swap offer amt b ms tt) = .ok r) : Same w r.1 ∧ Good ok w r.1 := by
  unfold pairExec at h
  cases hP : w.pair p with
  | none => simp [hP] at h
  | some P =>
    simp only [hP, bind_ok_iff] at h
    obtain ⟨w0, h0, h⟩ := h
    cases offer with
    | token x => simp at h
    | native d =>
      simp only [bind_ok_iff, pure_ok_iff] at h
      obtain ⟨_, _, ⟨w1, o⟩, h1, rfl⟩ := h
      obtain ⟨s2, g2⟩ := sgood_pairSwap (hpairs p (by simp [hP])) h1
      exact ⟨(attach_same h0).1.trans s2, (good_attach h0).trans g2⟩

theorem sgood_routerHop {w w' : World} {sender : Nat} {offer ask : Asset} {tt : Option Nat}
    (hr : ok w.router) (hpairs : ∀ q, (w.pair q).isSome → ok q)
    (h : routerHop w sender offer ask tt = .ok w') : Same w w' ∧ Good ok w w' := by
  unfold routerHop at h
  split at h
  · cases h
  split at h
  · cases h
  simp only [bind_ok_iff] at h
  obtain ⟨amount, _, h⟩ := h
  split at h
  · simp only [bind_ok_iff, pure_ok_iff] at h
    obtain ⟨⟨w1, o⟩, h1, rfl⟩ := h
    exact sgood_pairExec_swap hpairs h1
  · simp only [bind_ok_iff, pure_ok_iff] at h
    obtain ⟨⟨w1, o⟩, h1, rfl⟩ := h
    exact sgood_tokSendPair_swap hr hpairs h1

theorem sgood_routerHops {tt : Nat} : ∀ (ops : List (Asset × Asset)) {w w' : World},
    ok w.router → (∀ q, (w.pair q).isSome → ok q) → routerHops w tt ops = .ok w' → Same w w' ∧ Good ok w w'
  | [], w, w', _, _, h => by
    simp only [routerHops] at h; injection h with h; subst h; exact ⟨Same.refl _, Good.refl _ _⟩
  | [(o, a)], w, w', hr, hp, h => by
    simp only [routerHops] at h; exact sgood_routerHop hr hp h
  | (o, a) :: b :: rest, w, w', hr, hp, h => by
    simp only [routerHops, bind_ok_iff] at h
    obtain ⟨w1, h1, h2⟩ := h
    obtain ⟨s1, g1⟩ := sgood_routerHop hr hp h1
    obtain ⟨s2, g2⟩ := sgood_routerHops (b :: rest) (by rw [s1.router]; exact hr)
      (by intro q; rw [s1.pair]; exact hp q) h2
    exact ⟨s1.trans s2, g1.trans g2⟩

theorem good_routerSwapOps {name : Asset → String} {w w' : World} {sender : Nat} {ops : List (Asset × Asset)}
    {mn tt : Option Nat} (hr : ok w.router) (hpairs : ∀ q, (w.pair q).isSome → ok q)
    (h : routerSwapOps name w sender ops mn tt = .ok w') : Good ok w w' := by
  unfold routerSwapOps at h
  split at h
  · cases h
  simp only [bind_ok_iff] at h
  obtain ⟨_, _, h⟩ := h
  split at h
  · exact (sgood_routerHops _ hr hpairs h).2
  · simp only [bind_ok_iff, pure_ok_iff] at h
    obtain ⟨_, _, w1, h1, _, _, rfl⟩ := h
    exact (sgood_routerHops _ hr hpairs h1).2

theorem good_routerReceive {name : Asset → String} {w w' : World} {from_ : Nat} {hk : Hook}
    (hr : ok w.router) (hpairs : ∀ q, (w.pair q).isSome → ok q)
    (h : routerReceive name w from_ hk = .ok w') : Good ok w w' := by
  obtain ⟨ops, mn, dst, rfl, _, _, h⟩ := routerReceive_ok h
  exact good_routerSwapOps hr hpairs h

theorem good_routerExec {name : Asset → String} {w w' : World} {sender : Nat} {funds : List (Nat × Nat)}
    {m : RouterMsg} (hr : ok w.router) (hpairs : ∀ q, (w.pair q).isSome → ok q)
    (h : routerExec name w sender funds m = .ok w') : Good ok w w' := by
  unfold routerExec at h
  simp only [bind_ok_iff] at h
  obtain ⟨w0, h0, h⟩ := h
  have s0 := (attach_same h0).1
  have hr0 : ok w0.router := by rw [s0.router]; exact hr
  have hp0 : ∀ q, (w0.pair q).isSome → ok q := by intro q; rw [s0.pair]; exact hpairs q
  refine (good_attach h0).trans ?_
  cases m with
  | swapOps ops mn tt =>
    simp only [bind_ok_iff] at h
    obtain ⟨_, _, h⟩ := h
    exact good_routerSwapOps hr0 hp0 h
  | swapOp o a tt =>
    simp only [bind_ok_iff] at h
    obtain ⟨_, _, h⟩ := h
    exact (sgood_routerHop hr0 hp0 h).2
  | assertMin a prev mn rcv =>
    simp only [bind_ok_iff, pure_ok_iff] at h
    obtain ⟨_, _, _, _, rfl⟩ := h
    exact Good.refl _ _
  | receive from_ amount hk => exact good_routerReceive hr0 hp0 h

theorem good_tokSend {name : Asset → String} {w : World} {t sender dst amt : Nat} {hk : Hook} {r : World × Out}
    (hs : ok sender) (hr : ok w.router) (hpairs : ∀ q, (w.pair q).isSome → ok q)
    (h : tokSend name w t sender dst amt hk = .ok r) : Good ok w r.1 := by
  unfold tokSend at h
  split at h
  · rename_i hd
    exact good_tokSendPair hs (hpairs dst hd) h
  · split at h
    · simp only [bind_ok_iff, pure_ok_iff] at h
      obtain ⟨w1, h1, w2, h2, rfl⟩ := h
      have s1 := (tokTransfer_same h1).1
      exact (good_transfer hs h1).trans
        (good_routerReceive (by rw [s1.router]; exact hr) (by intro q; rw [s1.pair]; exact hpairs q) h2)
    · cases h

theorem good_tokSendFrom {name : Asset → String} {w : World} {t sp o dst amt : Nat} {hk : Hook} {r : World × Out}
    (ho : ok o) (hr : ok w.router) (hpairs : ∀ q, (w.pair q).isSome → ok q)
    (h : tokSendFrom name w t sp o dst amt hk = .ok r) : Good ok w r.1 := by
  obtain ⟨w', out⟩ := r
  obtain ⟨w1, h1, ⟨hd, h2⟩ | ⟨_, _, _, h2⟩⟩ := tokSendFrom_ok h
  · exact (good_transferFrom ho h1).trans (good_pairReceive (hpairs dst hd) h2)
  · have s1 := (tokTransferFrom_same h1).1
    exact (good_transferFrom ho h1).trans
      (good_routerReceive (by rw [s1.router]; exact hr) (by intro q; rw [s1.pair]; exact hpairs q) h2)

/-! factory -/

theorem facFanOut1_tok {denom decimals : Nat} {w w' : World} {msgs msgs' : List (Nat × Nat × Nat)}
    {e : Bytes × Record} (h : facFanOut1 denom decimals (w, msgs) e = .ok (w', msgs')) : w'.tok = w.tok := by
  unfold facFanOut1 at h
  dsimp only at h
  split at h
  · cases h
  injection h with h
  by_cases h0 : e.2.a0 = .native denom <;> by_cases h1 : e.2.a1 = .native denom <;>
    simp only [h0, h1, if_true, if_false, Prod.mk.injEq] at h <;>
    (obtain ⟨rfl, _⟩ := h; rfl)

theorem facFanOut_fold_tok {denom decimals : Nat} : ∀ (l : List (Bytes × Record)) {acc acc' : World × List (Nat × Nat × Nat)},
    l.foldlM (facFanOut1 denom decimals) acc = .ok acc' → acc'.1.tok = acc.1.tok
  | [], acc, acc', h => by
    simp only [List.foldlM_nil, pure_ok_iff] at h; subst h; rfl
  | e :: l, (w, msgs), acc', h => by
    simp only [List.foldlM_cons, bind_ok_iff] at h
    obtain ⟨⟨w1, msgs1⟩, h1, h2⟩ := h
    exact (facFanOut_fold_tok l h2).trans (facFanOut1_tok h1)

theorem facFanOutMsgs_tok {denom : Nat} : ∀ (l : List (Nat × Nat × Nat)) {w w' : World},
    facFanOutMsgs denom w l = .ok w' → w'.tok = w.tok
  | [], w, w', h => by
    simp only [facFanOutMsgs] at h; injection h with h; subst h; rfl
  | (p, da, db) :: rest, w, w', h => by
    simp only [facFanOutMsgs, bind_ok_iff] at h
    obtain ⟨w1, h1, h2⟩ := h
    exact (facFanOutMsgs_tok rest h2).trans (pairUpdateDecimals_tok h1)

theorem facAddDecimals_tok {w w' : World} {sender denom decimals : Nat}
    (h : facAddDecimals w sender denom decimals = .ok w') : w'.tok = w.tok := by
  unfold facAddDecimals at h
  dsimp only at h
  split at h
  · cases h
  split at h
  · cases h
  split at h
  · simp only [bind_ok_iff] at h
    obtain ⟨⟨w2, msgs⟩, h1, h2⟩ := h
    exact (facFanOutMsgs_tok _ h2).trans (facFanOut_fold_tok _ h1)
  · simp only [pure_ok_iff] at h
    subst h
    rfl

theorem good_facCreatePair {w w' : World} {sender : Nat} {a0 a1 : Asset} {req : Requirements} {comm : Option Nat}
    {lpDec : Option Nat} {np nl : Nat} (hfresh : w.tok nl = none)
    (h : facCreatePair w sender a0 a1 req comm lpDec np nl = .ok w') : Good ok w w' := by
  unfold facCreatePair at h
  split at h
  · cases h
  split at h
  · cases h
  have h' : ∃ cb : Bool, (if cb = true then (.error .err : M World) else _) = .ok w' := ⟨_, h⟩
  clear h
  obtain ⟨cb, h⟩ := h'
  split at h
  · cases h
  simp only [bind_ok_iff] at h
  obtain ⟨d0, _, d1, _, h⟩ := h
  split at h
  · cases h
  split at h
  · cases h
  have h' : ∃ cb : Bool, (if cb = true then (.error .err : M World) else _) = .ok w' := ⟨_, h⟩
  clear h
  obtain ⟨cb, h⟩ := h'
  split at h
  · cases h
  injection h with h
  subst h
  exact good_create hfresh (T := { bal := fun _ => 0, allow := fun _ _ => none, supply := 0, minter := some np, decimals := lpDec.getD 6 })
    (fun _ => rfl) rfl

theorem good_facExec {w w' : World} {s : Nat} {funds : List (Nat × Nat)} {m : FacMsg}
    (hfresh : ∀ a0 a1 req c ld np nl, m = .createPair a0 a1 req c ld np nl → w.tok nl = none)
    (h : facExec w s funds m = .ok w') : Good ok w w' := by
  unfold facExec at h
  simp only [bind_ok_iff] at h
  obtain ⟨w0, h0, h⟩ := h
  have t0 := (attach_same h0).2
  refine (good_attach h0).trans ?_
  cases m with
  | updateConfig o tc pc =>
    have h : facUpdateConfig w0 s o tc pc = .ok w' := h
    unfold facUpdateConfig at h
    split at h
    · cases h
    split at h
    · cases h
    injection h with h
    subst h
    exact good_of_tok rfl
  | createPair a0 a1 req comm lpDec np nl =>
    exact good_facCreatePair (by rw [t0]; exact hfresh _ _ _ _ _ _ _ rfl) h
  | addDecimals d k => exact good_of_tok (facAddDecimals_tok h)
  | migratePair p c =>
    have h : facMigratePair w0 s p c = .ok w' := h
    unfold facMigratePair at h
    split at h
    · cases h
    split at h
    · cases h
    split at h
    · split at h
      · injection h with h; subst h; exact Good.refl _ _
      · cases h
    · cases h

end handlers

/-- the whole-transaction statement -/
theorem good_exec {name : Asset → String} {w w' : World} {op : Op} {out : Out}
    (hf : FreshOK w op) (h : exec name w op = .ok (w', out)) :
    Good (fun z => (z = actorOf op ∨ z ∈ ownersOf op) ∨ (w.pair z).isSome ∨ z = w.router) w w' := by
  have hr : (fun z => (z = actorOf op ∨ z ∈ ownersOf op) ∨ (w.pair z).isSome ∨ z = w.router) w.router :=
    Or.inr (Or.inr rfl)
  have hpairs : ∀ q, (w.pair q).isSome →
      (fun z => (z = actorOf op ∨ z ∈ ownersOf op) ∨ (w.pair z).isSome ∨ z = w.router) q :=
    fun q hq => Or.inr (Or.inl hq)
  have hact : (fun z => (z = actorOf op ∨ z ∈ ownersOf op) ∨ (w.pair z).isSome ∨ z = w.router) (actorOf op) :=
    Or.inl (Or.inl rfl)
  cases op with
  | bankSend s d cs =>
    simp only [exec, bind_ok_iff, pure_ok_iff, Prod.mk.injEq] at h
    obtain ⟨w1, h1, rfl, _⟩ := h
    exact good_bankSend h1
  | tokTransfer t s d a =>
    simp only [exec, bind_ok_iff, pure_ok_iff, Prod.mk.injEq] at h
    obtain ⟨w1, h1, rfl, _⟩ := h
    exact good_transfer hact h1
  | tokSend t s d a hk =>
    simp only [exec] at h
    exact good_tokSend hact hr hpairs h
  | tokIncAllow t o s a =>
    simp only [exec, bind_ok_iff, pure_ok_iff, Prod.mk.injEq] at h
    obtain ⟨w1, h1, rfl, _⟩ := h
    exact good_incAllow h1
  | tokBurn t s a =>
    simp only [exec, bind_ok_iff, pure_ok_iff, Prod.mk.injEq] at h
    obtain ⟨w1, h1, rfl, _⟩ := h
    exact good_burn hact h1
  | pair s p f m =>
    simp only [exec] at h
    have hp : (w.pair p).isSome := by
      unfold pairExec at h
      cases hP : w.pair p with
      | none => simp [hP] at h
      | some P => rfl
    exact good_pairExec hact (hpairs p hp) h
  | router s f m =>
    simp only [exec, bind_ok_iff, pure_ok_iff, Prod.mk.injEq] at h
    obtain ⟨w1, h1, rfl, _⟩ := h
    exact good_routerExec hr hpairs h1
  | factory s f m =>
    simp only [exec, bind_ok_iff, pure_ok_iff, Prod.mk.injEq] at h
    obtain ⟨w1, h1, rfl, _⟩ := h
    exact good_facExec (fun a0 a1 req c ld np nl e => (hf s f a0 a1 req c ld np nl (by rw [e])).2.1) h1
  | tokTransferFrom t sp o d a =>
    simp only [exec, bind_ok_iff, pure_ok_iff, Prod.mk.injEq] at h
    obtain ⟨w1, h1, rfl, _⟩ := h
    exact good_transferFrom (Or.inl (Or.inr (by simp [ownersOf]))) h1
  | tokSendFrom t sp o d a hk =>
    simp only [exec] at h
    exact good_tokSendFrom (Or.inl (Or.inr (by simp [ownersOf]))) hr hpairs h
  | tokBurnFrom t sp o a =>
    simp only [exec, bind_ok_iff, pure_ok_iff, Prod.mk.injEq] at h
    obtain ⟨w1, h1, rfl, _⟩ := h
    exact good_burnFrom (Or.inl (Or.inr (by simp [ownersOf]))) h1
  | tokDecAllow t o sp a =>
    simp only [exec, bind_ok_iff, pure_ok_iff, Prod.mk.injEq] at h
    obtain ⟨w1, h1, rfl, _⟩ := h
    exact good_decAllow h1

/-! ### C20 / C05W: the exported statements -/

theorem tokSumOK_holder {w : World} {t h : Nat} (hk : TokSumOK w t) : bal w (.token t) h ≤ supply w t := by
  have := hk [h] (List.nodup_cons.mpr ⟨List.not_mem_nil, List.nodup_nil⟩)
  simpa [sumBal] using this

theorem tokSumOK_step {name : Asset → String} {w w' : World} {op : Op} {out : Out} {t : Nat}
    (hk : TokSumOK w t) (hf : FreshOK w op) (h : exec name w op = .ok (w', out)) : TokSumOK w' t :=
  (good_exec hf h).sum t hk

theorem reserved_unit_unspendable {name : Asset → String} {w w' : World} {op : Op} {out : Out} {p : Nat} {P : PairSt}
    (_hP : w.pair p = some P) (hlpp : (w.pair P.lp).isNone) (hlr : P.lp ≠ w.router)
    (hnoallow : ∀ T, w.tok P.lp = some T → ∀ s, T.allow P.lp s = none)
    (hact : actorOf op ≠ P.lp) (hf : FreshOK w op)
    (h : exec name w op = .ok (w', out)) :
    bal w (.token P.lp) P.lp ≤ bal w' (.token P.lp) P.lp := by
  have hnp : ¬ (w.pair P.lp).isSome := by
    rw [Option.isNone_iff_eq_none] at hlpp
    rw [hlpp]; simp
  -- a `…From` operation on the LP token itself with the LP token address as owner is impossible (no allowance);
  -- on any other token it does not move LP tokens
  have key : ∀ {t sp d a : Nat} {w1 : World}, tokTransferFrom w t sp P.lp d a = .ok w1 →
      t ≠ P.lp ∧ ∀ z, bal w1 (.token P.lp) z = bal w (.token P.lp) z := by
    intro t sp d a w1 h1
    have ht : t ≠ P.lp := by
      rintro rfl
      obtain ⟨T, al, hT, hal, _⟩ := tokTransferFrom_ok h1
      have := hnoallow T hT sp
      rw [hal] at this
      cases this
    refine ⟨ht, fun z => ?_⟩
    rw [bal_tokTransferFrom h1, if_neg (by simpa using Ne.symm ht)]
  by_cases hown : P.lp ∈ ownersOf op
  · cases op with
    | tokTransferFrom t sp o d a =>
      simp only [ownersOf, List.mem_singleton] at hown
      subst hown
      simp only [exec, bind_ok_iff, pure_ok_iff, Prod.mk.injEq] at h
      obtain ⟨w1, h1, rfl, _⟩ := h
      rw [(key h1).2]
    | tokBurnFrom t sp o a =>
      simp only [ownersOf, List.mem_singleton] at hown
      subst hown
      simp only [exec, bind_ok_iff, pure_ok_iff, Prod.mk.injEq] at h
      obtain ⟨w1, h1, rfl, _⟩ := h
      have ht : t ≠ P.lp := by
        rintro rfl
        obtain ⟨T, al, hT, hal, _⟩ := tokBurnFrom_ok h1
        have := hnoallow T hT sp
        rw [hal] at this
        cases this
      rw [bal_tokBurnFrom h1, if_neg (fun e => ht (by simpa using e.1.symm))]
    | tokSendFrom t sp o d a hk =>
      simp only [ownersOf, List.mem_singleton] at hown
      subst hown
      simp only [exec] at h
      obtain ⟨w1, h1, h2⟩ := tokSendFrom_ok h
      have s1 := (tokTransferFrom_same h1).1
      rw [← (key h1).2]
      have g : Good (fun z => (w.pair z).isSome ∨ z = w.router) w1 w' := by
        rcases h2 with ⟨hd, h2⟩ | ⟨_, _, _, h2⟩
        · exact good_pairReceive (ok := fun z => (w.pair z).isSome ∨ z = w.router) (Or.inl hd) h2
        · exact good_routerReceive (ok := fun z => (w.pair z).isSome ∨ z = w.router)
            (by rw [s1.router]; exact Or.inr rfl) (by intro q; rw [s1.pair]; exact Or.inl) h2
      refine g.keep P.lp P.lp ?_
      rintro (e | e)
      · exact hnp e
      · exact hlr e
    | bankSend s d cs => simp [ownersOf] at hown
    | tokTransfer t s d a => simp [ownersOf] at hown
    | tokSend t s d a hk => simp [ownersOf] at hown
    | tokIncAllow t o s a => simp [ownersOf] at hown
    | tokBurn t s a => simp [ownersOf] at hown
    | pair s p f m => simp [ownersOf] at hown
    | router s f m => simp [ownersOf] at hown
    | factory s f m => simp [ownersOf] at hown
    | tokDecAllow t o s a => simp [ownersOf] at hown
  · refine (good_exec hf h).keep P.lp P.lp ?_
    rintro ((e | e) | e | e)
    · exact hact e.symm
    · exact hown e
    · exact hnp e
    · exact hlr e

end Halo.Liquidity
