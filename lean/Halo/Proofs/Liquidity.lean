/-
Proofs for the liquidity properties at world level:
  C04W  (`withdraw_effect`), C05W (`provide_effect_pos`, `provide_effect_empty`, `reserved_unit_unspendable`),
  C20   (`withdraw_live`, `tokSumOK_holder`, `tokSumOK_step`).
Statements live in `Halo/Props/C04W.lean`, `Halo/Props/C05W.lean`, `Halo/Props/C20.lean`.
-/
import Halo.Inv
import Halo.Proofs.C04
import Halo.Spec
import Halo.Props.C09
import Halo.Proofs.C02

set_option linter.unusedSimpArgs false

namespace Halo.Liquidity
open Halo

theorem ok_bind {α β} (a : α) (f : α → M β) : ((Except.ok a : M α) >>= f) = f a := rfl

/-! ### withdrawal: inversion -/

theorem pairWithdraw_ok {w w' : World} {p : Nat} {P : PairSt} {s a x0 x1 : Nat}
    (h : pairWithdraw w p P s a = .ok (w', x0, x1)) :
    (w.tok P.lp).isSome ∧
    withdrawRefund (bal w P.a0 p) a (supply w P.lp) = .ok x0 ∧
    withdrawRefund (bal w P.a1 p) a (supply w P.lp) = .ok x1 ∧
    ∃ w1 w2, payout w p P.a0 s x0 = .ok w1 ∧ payout w1 p P.a1 s x1 = .ok w2 ∧
      tokBurn w2 P.lp p a = .ok w' := by
  unfold pairWithdraw at h
  simp only [bind_ok_iff, pure_ok_iff, Prod.mk.injEq] at h
  obtain ⟨r0, hr0, r1, hr1, S, hS, ratio, hratio, y0, hy0, y1, hy1, w1, hp0, w2, hp1, w3, hb, rfl, rfl, rfl⟩ := h
  have e0 := balOf_ok hr0
  have e1 := balOf_ok hr1
  obtain ⟨eS, hlp⟩ := supplyOf_ok hS
  subst e0 e1 eS
  refine ⟨hlp, ?_, ?_, w1, w2, hp0, hp1, hb⟩
  · unfold withdrawRefund; rw [hratio]; exact hy0
  · unfold withdrawRefund; rw [hratio]; exact hy1

theorem tokSendPair_withdraw_ok {w w' : World} {t h p a : Nat} {P : PairSt} {out : Out}
    (hP : w.pair p = some P)
    (hx : tokSendPair w t h p a .withdraw = .ok (w', out)) :
    t = P.lp ∧ ∃ w0 x0 x1, out = .withdraw x0 x1 ∧ tokTransfer w t h p a = .ok w0 ∧
      pairWithdraw w0 p P h a = .ok (w', x0, x1) := by
  unfold tokSendPair at hx
  simp only [bind_ok_iff] at hx
  obtain ⟨w0, htr, hrc⟩ := hx
  have hpair : w0.pair = w.pair := (tokTransfer_same htr).1.pair
  unfold pairReceive at hrc
  rw [hpair] at hrc
  simp only [hP] at hrc
  by_cases ht : t = P.lp
  · rw [if_neg (fun hh => hh ht)] at hrc
    simp only [bind_ok_iff, pure_ok_iff, Prod.mk.injEq] at hrc
    obtain ⟨⟨w1, y0, y1⟩, hpw, rfl, rfl⟩ := hrc
    exact ⟨ht, w0, y0, y1, rfl, htr, hpw⟩
  · rw [if_pos ht] at hrc; cases hrc

theorem tokBurn_le {w w' : World} {t s amt : Nat} (h : tokBurn w t s amt = .ok w') :
    amt ≠ 0 ∧ amt ≤ bal w (.token t) s ∧ amt ≤ supply w t := by
  obtain ⟨T, hT, h0, hb, hs, _⟩ := tokBurn_ok h
  exact ⟨h0, by simp [bal, hT, hb], by simp [supply, hT, hs]⟩

/-! ### withdrawal: effect -/

theorem withdraw_effect {w w' : World} {t h p a x0 x1 : Nat} {P : PairSt}
    (hP : w.pair p = some P) (hhp : h ≠ p) (hne : P.a0 ≠ P.a1) (hl0 : P.a0 ≠ .token P.lp) (hl1 : P.a1 ≠ .token P.lp)
    (hx : tokSendPair w t h p a .withdraw = .ok (w', .withdraw x0 x1)) :
    t = P.lp ∧ 1 ≤ a ∧ a ≤ bal w (.token P.lp) h ∧
    Spec.c04 (bal w P.a0 p) a (supply w P.lp) x0 = true ∧ Spec.c04 (bal w P.a1 p) a (supply w P.lp) x1 = true ∧
    supply w' P.lp + a = supply w P.lp ∧
    bal w' (.token P.lp) h + a = bal w (.token P.lp) h ∧
    bal w' (.token P.lp) p = bal w (.token P.lp) p ∧
    bal w' P.a0 h = bal w P.a0 h + x0 ∧ bal w' P.a1 h = bal w P.a1 h + x1 ∧
    bal w' P.a0 p + x0 = bal w P.a0 p ∧ bal w' P.a1 p + x1 = bal w P.a1 p ∧
    (∀ b z, z ≠ h → z ≠ p → bal w' b z = bal w b z) ∧
    (∀ u, u ≠ P.lp → supply w' u = supply w u) := by
  obtain ⟨rfl, w0, y0, y1, ho, htr, hpw⟩ := tokSendPair_withdraw_ok hP hx
  injection ho with e0 e1
  subst e0 e1
  obtain ⟨hlp, hx0, hx1, w1, w2, hp0, hp1, hb⟩ := pairWithdraw_ok hpw
  have T := bal_tokTransfer htr
  have Q0 := fun b z => (bal_payout hp0 b z).2.2
  have Q1 := fun b z => (bal_payout hp1 b z).2.2
  have B := bal_tokBurn hb
  have sT := supply_tokTransfer htr
  have s0 := supply_payout hp0
  have s1 := supply_payout hp1
  have sB := supply_tokBurn hb
  obtain ⟨ha0, hab, -, -, -⟩ := Halo.C02.tokTransfer_effect hhp htr
  obtain ⟨-, hbb, hbs⟩ := tokBurn_le hb
  have hx0le := (bal_payout hp0 P.a0 p).2.1
  have hx1le := (bal_payout hp1 P.a1 p).2.1
  have hph : p ≠ h := Ne.symm hhp
  have hne' : P.a1 ≠ P.a0 := Ne.symm hne
  -- reserves and supply seen by the handler are those before the transaction
  have r0 : bal w0 P.a0 p = bal w P.a0 p := by rw [T, if_neg hl0]
  have r1 : bal w0 P.a1 p = bal w P.a1 p := by rw [T, if_neg hl1]
  have r1' : bal w1 P.a1 p = bal w P.a1 p := by rw [Q0, if_neg hne', r1]
  rw [r0, sT] at hx0
  rw [r1, sT] at hx1
  rw [s1, s0, sT] at hbs
  rw [r0] at hx0le
  rw [r1'] at hx1le
  have ha1 : 1 ≤ a := Nat.pos_of_ne_zero ha0
  refine ⟨rfl, ha1, hab, Halo.C04.refund_bounds hx0 ha1 hbs, Halo.C04.refund_bounds hx1 ha1 hbs,
    ?_, ?_, ?_, ?_, ?_, ?_, ?_, ?_, ?_⟩
  · rw [sB, if_pos rfl, s1, s0, sT]; omega
  · simp only [B, Q1, Q0, T]
    simp [hl0, hl1, hhp, Ne.symm hl0, Ne.symm hl1]
    omega
  · simp only [B, Q1, Q0, T]
    simp [hl0, hl1, hph, Ne.symm hl0, Ne.symm hl1]
  · simp only [B, Q1, Q0, T]
    simp [hl0, hl1, hhp, hne, hne']
  · simp only [B, Q1, Q0, T]
    simp [hl0, hl1, hhp, hne, hne']
  · simp only [B, Q1, Q0, T]
    simp [hl0, hl1, hph, hne, hne']
    omega
  · simp only [B, Q1, Q0, T]
    simp [hl0, hl1, hph, hne, hne']
    omega
  · intro b z hz1 hz2
    simp only [B, Q1, Q0, T]
    simp [hz1, hz2]
  · intro u hu
    rw [sB, if_neg hu, s1, s0, sT]

/-! ### ok-introduction for the primitives -/

theorem balOf_intro {w : World} {a : Asset} (z : Nat) (ha : ∀ t, a = .token t → (w.tok t).isSome) :
    balOf w a z = .ok (bal w a z) := by
  cases a with
  | native d => rfl
  | token t =>
    have h1 := ha t rfl
    cases hT : w.tok t with
    | none => simp [hT] at h1
    | some T => simp [balOf, bal, hT]

theorem supplyOf_intro {w : World} {t : Nat} (ht : (w.tok t).isSome) : supplyOf w t = .ok (supply w t) := by
  cases hT : w.tok t with
  | none => simp [hT] at ht
  | some T => simp [supplyOf, supply, hT]

theorem tokTransfer_intro {w : World} {t src amt : Nat} (dst : Nat) (ht : (w.tok t).isSome) (h0 : amt ≠ 0)
    (hle : amt ≤ bal w (.token t) src) : ∃ w', tokTransfer w t src dst amt = .ok w' := by
  cases hT : w.tok t with
  | none => simp [hT] at ht
  | some T =>
    simp only [bal, hT] at hle
    unfold tokTransfer
    simp only [hT]
    rw [if_neg h0, if_neg (by omega)]
    exact ⟨_, rfl⟩

theorem tokBurn_intro {w : World} {t s amt : Nat} (ht : (w.tok t).isSome) (h0 : amt ≠ 0)
    (hle : amt ≤ bal w (.token t) s) (hs : amt ≤ supply w t) : ∃ w', tokBurn w t s amt = .ok w' := by
  cases hT : w.tok t with
  | none => simp [hT] at ht
  | some T =>
    simp only [bal, hT] at hle
    simp only [supply, hT] at hs
    unfold tokBurn
    simp only [hT]
    rw [if_neg h0, if_neg (by omega), if_neg (by omega)]
    exact ⟨_, rfl⟩

theorem bankSend_single_intro {w : World} {src d amt : Nat} (dst : Nat) (h0 : amt ≠ 0) (hle : amt ≤ w.bank src d) :
    ∃ w', bankSend w src dst [(d, amt)] = .ok w' := by
  unfold bankSend
  simp only [List.filter, h0, ne_eq, not_false_eq_true, decide_true]
  simp only [reduceCtorEq, ↓reduceIte, bankMoveList, bankMove1]
  rw [if_neg (by omega)]
  exact ⟨_, rfl⟩

theorem payout_intro {w : World} {src : Nat} {a : Asset} {amt : Nat} (dst : Nat)
    (ha : ∀ t, a = .token t → (w.tok t).isSome) (h0 : amt ≠ 0) (hle : amt ≤ bal w a src) :
    ∃ w', payout w src a dst amt = .ok w' := by
  cases a with
  | native d => exact bankSend_single_intro dst h0 hle
  | token t => exact tokTransfer_intro dst (ha t rfl) h0 hle

/-! ### C20: a legal withdrawal succeeds -/

theorem withdraw_live {w : World} {p h a : Nat} {P : PairSt}
    (hP : w.pair p = some P) (hhp : h ≠ p)
    (hne : P.a0 ≠ P.a1) (hl0 : P.a0 ≠ .token P.lp) (hl1 : P.a1 ≠ .token P.lp)
    (hlp : (w.tok P.lp).isSome)
    (ht0 : ∀ t, P.a0 = .token t → (w.tok t).isSome) (ht1 : ∀ t, P.a1 = .token t → (w.tok t).isSome)
    (ha1 : 1 ≤ a) (hab : a ≤ bal w (.token P.lp) h) (haS : a ≤ supply w P.lp)
    (hr0 : bal w P.a0 p < W) (hr1 : bal w P.a1 p < W) (hSW : supply w P.lp < W)
    (hent0 : (bal w P.a0 p + 2 * E) * supply w P.lp ≤ bal w P.a0 p * a * E)
    (hent1 : (bal w P.a1 p + 2 * E) * supply w P.lp ≤ bal w P.a1 p * a * E) :
    ∃ w' x0 x1, tokSendPair w P.lp h p a .withdraw = .ok (w', .withdraw x0 x1) ∧ 2 ≤ x0 ∧ 2 ≤ x1 := by
  have ha0 : a ≠ 0 := by omega
  have hSpos : 0 < supply w P.lp := by omega
  have hne' : P.a1 ≠ P.a0 := Ne.symm hne
  have hph : p ≠ h := Ne.symm hhp
  -- the cw20 transfer of the LP tokens to the pair
  obtain ⟨w0, htr⟩ := tokTransfer_intro p hlp ha0 hab
  have T := bal_tokTransfer htr
  have sT := supply_tokTransfer htr
  have k0 := tokTransfer_sameToks htr
  have hpair0 : w0.pair = w.pair := (tokTransfer_same htr).1.pair
  have r0 : bal w0 P.a0 p = bal w P.a0 p := by rw [T, if_neg hl0]
  have r1 : bal w0 P.a1 p = bal w P.a1 p := by rw [T, if_neg hl1]
  -- the refunds
  obtain ⟨x0, hx0⟩ := Halo.C04.refund_total (r := bal w P.a0 p) hSpos haS hr0 hSW
  obtain ⟨x1, hx1⟩ := Halo.C04.refund_total (r := bal w P.a1 p) hSpos haS hr1 hSW
  have h20 := Halo.C04.refund_ge_two hx0 ha1 haS hent0
  have h21 := Halo.C04.refund_ge_two hx1 ha1 haS hent1
  have hle0 := Halo.C04.refund_le_reserve hx0 haS
  have hle1 := Halo.C04.refund_le_reserve hx1 haS
  have hx0' := hx0
  have hx1' := hx1
  unfold withdrawRefund at hx0' hx1'
  simp only [bind_ok_iff] at hx0' hx1'
  obtain ⟨ratio, hratio, hm0⟩ := hx0'
  obtain ⟨ratio', hratio', hm1⟩ := hx1'
  rw [hratio] at hratio'
  injection hratio' with hr; subst hr
  -- queries
  have q0 : balOf w0 P.a0 p = .ok (bal w P.a0 p) := by
    rw [← r0]; exact balOf_intro p (fun t e => by rw [k0]; exact ht0 t e)
  have q1 : balOf w0 P.a1 p = .ok (bal w P.a1 p) := by
    rw [← r1]; exact balOf_intro p (fun t e => by rw [k0]; exact ht1 t e)
  have qS : supplyOf w0 P.lp = .ok (supply w P.lp) := by
    rw [← sT]; exact supplyOf_intro (by rw [k0]; exact hlp)
  -- first payout
  obtain ⟨w1, hp0⟩ := payout_intro (w := w0) (src := p) (a := P.a0) (amt := x0) h
    (fun t e => by rw [k0]; exact ht0 t e) (by omega) (by rw [r0]; exact hle0)
  have Q0 := fun b z => (bal_payout hp0 b z).2.2
  have k1 := payout_sameToks hp0
  have r1' : bal w1 P.a1 p = bal w P.a1 p := by rw [Q0, if_neg hne', r1]
  -- second payout
  obtain ⟨w2, hp1⟩ := payout_intro (w := w1) (src := p) (a := P.a1) (amt := x1) h
    (fun t e => by rw [k1, k0]; exact ht1 t e) (by omega) (by rw [r1']; exact hle1)
  have Q1 := fun b z => (bal_payout hp1 b z).2.2
  have k2 := payout_sameToks hp1
  -- burn
  have hbal2 : bal w2 (.token P.lp) p = bal w (.token P.lp) p + a := by
    rw [Q1, if_neg (Ne.symm hl1), Q0, if_neg (Ne.symm hl0), T, if_pos rfl, if_pos rfl, if_neg hph]
  have hsup2 : supply w2 P.lp = supply w P.lp := by
    rw [supply_payout hp1, supply_payout hp0, sT]
  obtain ⟨w3, hb⟩ := tokBurn_intro (w := w2) (t := P.lp) (s := p) (amt := a)
    (by rw [k2, k1, k0]; exact hlp) ha0 (by omega) (by omega)
  refine ⟨w3, x0, x1, ?_, h20, h21⟩
  unfold tokSendPair
  rw [htr, ok_bind]
  unfold pairReceive
  rw [hpair0]
  simp only [hP, ne_eq, not_true_eq_false, ↓reduceIte]
  unfold pairWithdraw
  simp only [q0, q1, qS, hratio, hm0, hm1, hp0, hp1, hb, ok_bind]
  rfl

end Halo.Liquidity
