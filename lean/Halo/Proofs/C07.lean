/-
C07 proofs — frame, allowance frame, conservation, supply.

Architecture: an inductive relation `Moves F S Q w w'` ("`w'` is reached from `w` by ledger primitives
whose source / destination / allowance-owner accounts all lie in `S` and whose mints / burns are on
tokens in `Q`, interleaved with *quiet* steps that change no balance, supply or allowance").  The
parameter `F` is the freshness assumption under which the quiet steps are quiet for cw20 state (the
bank is unchanged unconditionally).

  * one lemma per handler: success ⇒ `Moves`,
  * `exec_moves`: every successful operation is a `Moves (FreshOK w op) (Touched w op) (IsLp w ∨ burnt)`,
  * the C07 properties are consequences of `Moves` proved once, by induction on the relation.
Core Lean only.
-/
import Halo.Inv
import Halo.Proofs.C02
import Halo.Proofs.C14

namespace Halo.C07
open Halo

/-! ### sums over duplicate-free lists -/

theorem sum_congr {f g : Nat → Nat} : ∀ {L : List Nat}, (∀ z ∈ L, g z = f z) → (L.map g).sum = (L.map f).sum
  | [], _ => rfl
  | y :: L, h => by
    simp only [List.map_cons, List.sum_cons]
    rw [h y (List.mem_cons_self ..), sum_congr (fun z hz => h z (List.mem_cons_of_mem _ hz))]

theorem sum_add_at {f g : Nat → Nat} {x k : Nat} (hg : ∀ z, g z = if z = x then f z + k else f z) :
    ∀ {L : List Nat}, L.Nodup → x ∈ L → (L.map g).sum = (L.map f).sum + k
  | [], _, hx => by cases hx
  | y :: L, hn, hx => by
    rw [List.nodup_cons] at hn
    simp only [List.map_cons, List.sum_cons]
    by_cases hxy : y = x
    · subst hxy
      have : (L.map g).sum = (L.map f).sum :=
        sum_congr (fun z hz => by
          have hzy : z ≠ y := fun e => hn.1 (e ▸ hz)
          rw [hg z, if_neg hzy])
      rw [this, hg y, if_pos rfl]; omega
    · have hxL : x ∈ L := by
        rcases List.mem_cons.1 hx with e | e
        · exact absurd e.symm hxy
        · exact e
      rw [sum_add_at hg hn.2 hxL, hg y, if_neg hxy]; omega

theorem sum_sub_at {f g : Nat → Nat} {x k : Nat} (hg : ∀ z, g z = if z = x then f z - k else f z) (hk : k ≤ f x) :
    ∀ {L : List Nat}, L.Nodup → x ∈ L → (L.map g).sum + k = (L.map f).sum
  | [], _, hx => by cases hx
  | y :: L, hn, hx => by
    rw [List.nodup_cons] at hn
    simp only [List.map_cons, List.sum_cons]
    by_cases hxy : y = x
    · subst hxy
      have : (L.map g).sum = (L.map f).sum :=
        sum_congr (fun z hz => by
          have hzy : z ≠ y := fun e => hn.1 (e ▸ hz)
          rw [hg z, if_neg hzy])
      rw [this, hg y, if_pos rfl]; omega
    · have hxL : x ∈ L := by
        rcases List.mem_cons.1 hx with e | e
        · exact absurd e.symm hxy
        · exact e
      have := sum_sub_at hg hk hn.2 hxL
      rw [hg y, if_neg hxy]; omega

theorem sum_move {f g : Nat → Nat} {src dst amt : Nat}
    (hg : ∀ z, g z = if z = dst then (if z = src then f z - amt else f z) + amt
                     else if z = src then f z - amt else f z)
    (hle : amt ≤ f src) {L : List Nat} (hn : L.Nodup) (hs : src ∈ L) (hd : dst ∈ L) :
    (L.map g).sum = (L.map f).sum := by
  have h1 := sum_sub_at (f := f) (g := fun z => if z = src then f z - amt else f z) (fun _ => rfl) hle hn hs
  have h2 := sum_add_at (f := fun z => if z = src then f z - amt else f z) (g := g) (k := amt) (x := dst)
    (fun z => by rw [hg z]) hn hd
  omega

/-! ### allowances and the supply term -/

/-- total version of an allowance lookup: `none` for an unknown token -/
def allowOf (w : World) (t o s : Nat) : Option Nat :=
  match w.tok t with
  | some T => T.allow o s
  | none => none

/-- the supply side of the conservation equation: nothing for native coins -/
def supT (w : World) : Asset → Nat
  | .native _ => 0
  | .token t => supply w t

theorem allowOf_setTok {w : World} {t : Nat} {T : Token} (T' : Token) (hT : w.tok t = some T)
    (u o s : Nat) (hA : u = t → T'.allow o s = T.allow o s) :
    allowOf (setTok w t T') u o s = allowOf w u o s := by
  by_cases hu : u = t
  · subst hu; simp [allowOf, setTok, hT, hA rfl]
  · simp [allowOf, setTok, hu]

theorem allowOf_tokTransfer {w w' : World} {t src dst amt : Nat} (h : tokTransfer w t src dst amt = .ok w')
    (u o s : Nat) : allowOf w' u o s = allowOf w u o s := by
  obtain ⟨T, hT, _, _, rfl⟩ := tokTransfer_ok h
  exact allowOf_setTok _ hT u o s (fun _ => rfl)

theorem allowOf_tokMint {w w' : World} {t sd dst amt : Nat} (h : tokMint w t sd dst amt = .ok w')
    (u o s : Nat) : allowOf w' u o s = allowOf w u o s := by
  obtain ⟨T, hT, _, _, _, rfl⟩ := tokMint_ok h
  exact allowOf_setTok _ hT u o s (fun _ => rfl)

theorem allowOf_tokBurn {w w' : World} {t sd amt : Nat} (h : tokBurn w t sd amt = .ok w')
    (u o s : Nat) : allowOf w' u o s = allowOf w u o s := by
  obtain ⟨T, hT, _, _, _, rfl⟩ := tokBurn_ok h
  exact allowOf_setTok _ hT u o s (fun _ => rfl)

theorem allowOf_tokTransferFrom {w w' : World} {t sp owner dst amt : Nat}
    (h : tokTransferFrom w t sp owner dst amt = .ok w') (u o s : Nat) (ho : o ≠ owner) :
    allowOf w' u o s = allowOf w u o s := by
  obtain ⟨T, al, hT, _, _, _, rfl⟩ := tokTransferFrom_ok h
  exact allowOf_setTok _ hT u o s (fun _ => by simp [ho])

theorem allowOf_tokIncAllow {w w' : World} {t owner sp amt : Nat}
    (h : tokIncAllow w t owner sp amt = .ok w') (u o s : Nat) (ho : o ≠ owner) :
    allowOf w' u o s = allowOf w u o s := by
  obtain ⟨T, hT, _, rfl⟩ := tokIncAllow_ok h
  exact allowOf_setTok _ hT u o s (fun _ => by simp [ho])

theorem allowOf_tokBurnFrom {w w' : World} {t sp owner amt : Nat}
    (h : tokBurnFrom w t sp owner amt = .ok w') (u o s : Nat) (ho : o ≠ owner) :
    allowOf w' u o s = allowOf w u o s := by
  obtain ⟨T, al, hT, _, _, _, _, rfl⟩ := tokBurnFrom_ok h
  exact allowOf_setTok _ hT u o s (fun _ => by simp [ho])

theorem allowOf_tokDecAllow {w w' : World} {t owner sp amt : Nat}
    (h : tokDecAllow w t owner sp amt = .ok w') (u o s : Nat) (ho : o ≠ owner) :
    allowOf w' u o s = allowOf w u o s := by
  obtain ⟨T, al, hT, _, _, rfl⟩ := tokDecAllow_ok h
  exact allowOf_setTok _ hT u o s (fun _ => by simp [ho])

theorem allowOf_of_tok_eq {w w' : World} (h : w'.tok = w.tok) (t o s : Nat) :
    allowOf w' t o s = allowOf w t o s := by simp [allowOf, h]

theorem bal_of_eq {w w' : World} (hb : w'.bank = w.bank) (ht : w'.tok = w.tok) (a : Asset) (z : Nat) :
    bal w' a z = bal w a z := by
  cases a <;> simp [bal, hb, ht]

theorem supply_of_tok_eq {w w' : World} (h : w'.tok = w.tok) (t : Nat) : supply w' t = supply w t := by
  simp [supply, h]

/-! ### the relation -/

inductive Moves (F : Prop) (S Q : Nat → Prop) : World → World → Prop
  | refl (w : World) : Moves F S Q w w
  | trans {a b c : World} : Moves F S Q a b → Moves F S Q b c → Moves F S Q a c
  | bank {w w' : World} {src dst d amt : Nat} :
      S src → S dst → bankMove1 w src dst d amt = .ok w' → Moves F S Q w w'
  | xfer {w w' : World} {t src dst amt : Nat} :
      S src → S dst → tokTransfer w t src dst amt = .ok w' → Moves F S Q w w'
  | xferFrom {w w' : World} {t sp owner dst amt : Nat} :
      S owner → S dst → tokTransferFrom w t sp owner dst amt = .ok w' → Moves F S Q w w'
  | mint {w w' : World} {t sd dst amt : Nat} :
      S dst → Q t → tokMint w t sd dst amt = .ok w' → Moves F S Q w w'
  | burn {w w' : World} {t sd amt : Nat} :
      S sd → Q t → tokBurn w t sd amt = .ok w' → Moves F S Q w w'
  | incAllow {w w' : World} {t o sp amt : Nat} :
      S o → tokIncAllow w t o sp amt = .ok w' → Moves F S Q w w'
  | burnFrom {w w' : World} {t sp owner amt : Nat} :
      S owner → Q t → tokBurnFrom w t sp owner amt = .ok w' → Moves F S Q w w'
  | decAllow {w w' : World} {t o sp amt : Nat} :
      S o → tokDecAllow w t o sp amt = .ok w' → Moves F S Q w w'
  | quiet {w w' : World} :
      w'.bank = w.bank →
      (F → (∀ a z, bal w' a z = bal w a z) ∧ (∀ t, supply w' t = supply w t) ∧
        (∀ t o s, allowOf w' t o s = allowOf w t o s)) → Moves F S Q w w'

namespace Moves

variable {F : Prop} {S Q : Nat → Prop} {w w' : World}

theorem static (hb : w'.bank = w.bank) (ht : w'.tok = w.tok) : Moves F S Q w w' :=
  .quiet hb (fun _ => ⟨bal_of_eq hb ht, supply_of_tok_eq ht, allowOf_of_tok_eq ht⟩)

theorem frame (h : Moves F S Q w w') (hF : F) : ∀ a z, ¬ S z → bal w' a z = bal w a z := by
  induction h with
  | refl w => intros; rfl
  | trans _ _ ih1 ih2 => intro a z hz; rw [ih2 a z hz, ih1 a z hz]
  | @bank w w' src dst d amt hs hd h =>
    intro a z hz
    have h1 : z ≠ src := fun e => hz (e ▸ hs)
    have h2 : z ≠ dst := fun e => hz (e ▸ hd)
    rw [bal_bankMove1 h, if_neg h2, if_neg h1]; split <;> rfl
  | @xfer w w' t src dst amt hs hd h =>
    intro a z hz
    have h1 : z ≠ src := fun e => hz (e ▸ hs)
    have h2 : z ≠ dst := fun e => hz (e ▸ hd)
    rw [bal_tokTransfer h, if_neg h2, if_neg h1]; split <;> rfl
  | @xferFrom w w' t sp owner dst amt hs hd h =>
    intro a z hz
    have h1 : z ≠ owner := fun e => hz (e ▸ hs)
    have h2 : z ≠ dst := fun e => hz (e ▸ hd)
    rw [bal_tokTransferFrom h, if_neg h2, if_neg h1]; split <;> rfl
  | @mint w w' t sd dst amt hd _ h =>
    intro a z hz
    have h2 : z ≠ dst := fun e => hz (e ▸ hd)
    rw [bal_tokMint h, if_neg (fun e => h2 e.2)]
  | @burn w w' t sd amt hs _ h =>
    intro a z hz
    have h2 : z ≠ sd := fun e => hz (e ▸ hs)
    rw [bal_tokBurn h, if_neg (fun e => h2 e.2)]
  | incAllow _ h => intro a z _; exact bal_tokIncAllow h a z
  | @burnFrom w w' t sp owner amt hs _ h =>
    intro a z hz
    have h2 : z ≠ owner := fun e => hz (e ▸ hs)
    rw [bal_tokBurnFrom h, if_neg (fun e => h2 e.2)]
  | decAllow _ h => intro a z _; exact bal_tokDecAllow h a z
  | quiet _ hq => intro a z _; exact (hq hF).1 a z

theorem supply_frame (h : Moves F S Q w w') (hF : F) : ∀ t, ¬ Q t → supply w' t = supply w t := by
  induction h with
  | refl w => intros; rfl
  | trans _ _ ih1 ih2 => intro t ht; rw [ih2 t ht, ih1 t ht]
  | bank _ _ h => intro t _; exact supply_bankMove1 h t
  | xfer _ _ h => intro t _; exact supply_tokTransfer h t
  | xferFrom _ _ h => intro t _; exact supply_tokTransferFrom h t
  | @mint w w' t sd dst amt _ hq h =>
    intro u hu
    have hut : u ≠ t := fun e => hu (e ▸ hq)
    rw [supply_tokMint h, if_neg hut]
  | @burn w w' t sd amt _ hq h =>
    intro u hu
    have hut : u ≠ t := fun e => hu (e ▸ hq)
    rw [supply_tokBurn h, if_neg hut]
  | incAllow _ h => intro t _; exact supply_tokIncAllow h t
  | @burnFrom w w' t sp owner amt _ hq h =>
    intro u hu
    have hut : u ≠ t := fun e => hu (e ▸ hq)
    rw [supply_tokBurnFrom h, if_neg hut]
  | decAllow _ h => intro t _; exact supply_tokDecAllow h t
  | quiet _ hq => intro t _; exact (hq hF).2.1 t

theorem allow_frame (h : Moves F S Q w w') (hF : F) :
    ∀ t o s, ¬ S o → allowOf w' t o s = allowOf w t o s := by
  induction h with
  | refl w => intros; rfl
  | trans _ _ ih1 ih2 => intro t o s ho; rw [ih2 t o s ho, ih1 t o s ho]
  | bank _ _ h => intro t o s _; exact allowOf_of_tok_eq (bankMove1_same h).2 t o s
  | xfer _ _ h => intro t o s _; exact allowOf_tokTransfer h t o s
  | xferFrom hs _ h => intro t o s ho; exact allowOf_tokTransferFrom h t o s (fun e => ho (e ▸ hs))
  | mint _ _ h => intro t o s _; exact allowOf_tokMint h t o s
  | burn _ _ h => intro t o s _; exact allowOf_tokBurn h t o s
  | incAllow hs h => intro t o s ho; exact allowOf_tokIncAllow h t o s (fun e => ho (e ▸ hs))
  | burnFrom hs _ h => intro t o s ho; exact allowOf_tokBurnFrom h t o s (fun e => ho (e ▸ hs))
  | decAllow hs h => intro t o s ho; exact allowOf_tokDecAllow h t o s (fun e => ho (e ▸ hs))
  | quiet _ hq => intro t o s _; exact (hq hF).2.2 t o s

/-- conservation at one asset over one list -/
def ConsAt (w w' : World) (a : Asset) (L : List Nat) : Prop :=
  sumBal w' a L + supT w a = sumBal w a L + supT w' a

theorem consAt_same {a : Asset} {L : List Nat} (hb : ∀ z, bal w' a z = bal w a z) (hs : supT w' a = supT w a) :
    ConsAt w w' a L := by
  unfold ConsAt sumBal
  rw [sum_congr (fun z _ => hb z), hs]

theorem consAt_move {a : Asset} {L : List Nat} {src dst amt : Nat} (c : Prop) [Decidable c]
    (hb : ∀ z, bal w' a z =
      if c then (if z = dst then (if z = src then bal w a z - amt else bal w a z) + amt
                 else if z = src then bal w a z - amt else bal w a z)
      else bal w a z)
    (hle : c → amt ≤ bal w a src) (hs : supT w' a = supT w a)
    (hn : L.Nodup) (hsrc : src ∈ L) (hdst : dst ∈ L) : ConsAt w w' a L := by
  by_cases hc : c
  · unfold ConsAt sumBal
    rw [sum_move (fun z => by rw [hb z, if_pos hc]) (hle hc) hn hsrc hdst, hs]
  · exact consAt_same (fun z => by rw [hb z, if_neg hc]) hs

theorem supT_eq {a : Asset} (h : ∀ t, supply w' t = supply w t) : supT w' a = supT w a := by
  cases a with
  | native d => rfl
  | token t => exact h t

theorem cons (h : Moves F S Q w w') {a : Asset} (hF : ∀ t, a = .token t → F) :
    ∀ L : List Nat, L.Nodup → (∀ z, S z → z ∈ L) → ConsAt w w' a L := by
  induction h with
  | refl w => intro L _ _; rfl
  | trans _ _ ih1 ih2 =>
    intro L hn hL
    have h1 := ih1 L hn hL
    have h2 := ih2 L hn hL
    unfold ConsAt at *
    omega
  | bank hs hd h =>
    intro L hn hL
    exact consAt_move _ (bal_bankMove1 h a) (fun e => by subst e; exact (bankMove1_ok h).1)
      (supT_eq (supply_bankMove1 h)) hn (hL _ hs) (hL _ hd)
  | xfer hs hd h =>
    intro L hn hL
    obtain ⟨T, hT, _, hle, _⟩ := tokTransfer_ok h
    exact consAt_move _ (bal_tokTransfer h a) (fun e => by subst e; simp [bal, hT, hle])
      (supT_eq (supply_tokTransfer h)) hn (hL _ hs) (hL _ hd)
  | xferFrom hs hd h =>
    intro L hn hL
    obtain ⟨T, al, hT, _, _, hle, _⟩ := tokTransferFrom_ok h
    exact consAt_move _ (bal_tokTransferFrom h a) (fun e => by subst e; simp [bal, hT, hle])
      (supT_eq (supply_tokTransferFrom h)) hn (hL _ hs) (hL _ hd)
  | @mint w w' t sd dst amt hd _ h =>
    intro L hn hL
    by_cases ha : a = .token t
    · subst ha
      have := sum_add_at (k := amt) (x := dst) (f := bal w (.token t)) (g := bal w' (.token t))
        (fun z => by rw [bal_tokMint h]; simp only [true_and]) hn (hL _ hd)
      show sumBal w' (.token t) L + supply w t = sumBal w (.token t) L + supply w' t
      unfold sumBal
      rw [supply_tokMint h, if_pos rfl]
      omega
    · refine consAt_same (fun z => by rw [bal_tokMint h, if_neg (fun e => ha e.1)]) ?_
      cases a with
      | native d => rfl
      | token u =>
        show supply _ u = supply _ u
        have hut : u ≠ t := fun e => ha (e ▸ rfl)
        rw [supply_tokMint h, if_neg hut]
  | @burn w w' t sd amt hs _ h =>
    intro L hn hL
    by_cases ha : a = .token t
    · subst ha
      obtain ⟨T, hT, _, hle, hls, _⟩ := tokBurn_ok h
      have hle' : amt ≤ bal w (.token t) sd := by simp [bal, hT, hle]
      have hls' : amt ≤ supply w t := by simp [supply, hT, hls]
      have := sum_sub_at (k := amt) (x := sd) (f := bal w (.token t)) (g := bal w' (.token t))
        (fun z => by rw [bal_tokBurn h]; simp only [true_and]) hle' hn (hL _ hs)
      show sumBal w' (.token t) L + supply w t = sumBal w (.token t) L + supply w' t
      unfold sumBal
      rw [supply_tokBurn h, if_pos rfl]
      omega
    · refine consAt_same (fun z => by rw [bal_tokBurn h, if_neg (fun e => ha e.1)]) ?_
      cases a with
      | native d => rfl
      | token u =>
        show supply _ u = supply _ u
        have hut : u ≠ t := fun e => ha (e ▸ rfl)
        rw [supply_tokBurn h, if_neg hut]
  | incAllow _ h =>
    intro L _ _
    exact consAt_same (bal_tokIncAllow h a) (supT_eq (supply_tokIncAllow h))
  | @burnFrom w w' t sp owner amt hs _ h =>
    intro L hn hL
    by_cases ha : a = .token t
    · subst ha
      obtain ⟨T, al, hT, _, _, hle, hls, _⟩ := tokBurnFrom_ok h
      have hle' : amt ≤ bal w (.token t) owner := by simp [bal, hT, hle]
      have hls' : amt ≤ supply w t := by simp [supply, hT, hls]
      have := sum_sub_at (k := amt) (x := owner) (f := bal w (.token t)) (g := bal w' (.token t))
        (fun z => by rw [bal_tokBurnFrom h]; simp only [true_and]) hle' hn (hL _ hs)
      show sumBal w' (.token t) L + supply w t = sumBal w (.token t) L + supply w' t
      unfold sumBal
      rw [supply_tokBurnFrom h, if_pos rfl]
      omega
    · refine consAt_same (fun z => by rw [bal_tokBurnFrom h, if_neg (fun e => ha e.1)]) ?_
      cases a with
      | native d => rfl
      | token u =>
        show supply _ u = supply _ u
        have hut : u ≠ t := fun e => ha (e ▸ rfl)
        rw [supply_tokBurnFrom h, if_neg hut]
  | decAllow _ h =>
    intro L _ _
    exact consAt_same (bal_tokDecAllow h a) (supT_eq (supply_tokDecAllow h))
  | quiet hb hq =>
    intro L _ _
    cases a with
    | native d => exact consAt_same (fun z => by simp [bal, hb]) rfl
    | token t =>
      have := hq (hF t rfl)
      exact consAt_same (this.1 _) (this.2.1 t)

theorem mono {F' : Prop} {S' Q' : Nat → Prop} (h : Moves F S Q w w') (hF : F' → F)
    (hS : ∀ z, S z → S' z) (hQ : ∀ t, Q t → Q' t) : Moves F' S' Q' w w' := by
  induction h with
  | refl w => exact .refl w
  | trans _ _ ih1 ih2 => exact .trans ih1 ih2
  | bank hs hd h => exact .bank (hS _ hs) (hS _ hd) h
  | xfer hs hd h => exact .xfer (hS _ hs) (hS _ hd) h
  | xferFrom hs hd h => exact .xferFrom (hS _ hs) (hS _ hd) h
  | mint hd hq h => exact .mint (hS _ hd) (hQ _ hq) h
  | burn hs hq h => exact .burn (hS _ hs) (hQ _ hq) h
  | incAllow hs h => exact .incAllow (hS _ hs) h
  | burnFrom hs hq h => exact .burnFrom (hS _ hs) (hQ _ hq) h
  | decAllow hs h => exact .decAllow (hS _ hs) h
  | quiet hb hq => exact .quiet hb (fun hF' => hq (hF hF'))

end Moves

/-- bank and cw20 state unchanged -/
structure Ledger (w w' : World) : Prop where
  bank : w'.bank = w.bank
  tok : w'.tok = w.tok

theorem Ledger.refl (w : World) : Ledger w w := ⟨rfl, rfl⟩
theorem Ledger.trans {a b c : World} (h1 : Ledger a b) (h2 : Ledger b c) : Ledger a c :=
  ⟨h2.bank.trans h1.bank, h2.tok.trans h1.tok⟩
theorem Ledger.moves {F : Prop} {S Q : Nat → Prop} {w w' : World} (h : Ledger w w') : Moves F S Q w w' :=
  .static h.bank h.tok

section handlers
variable {F : Prop} {S Q : Nat → Prop}

theorem getD_mem {o : Option Nat} {s : Nat} (hs : S s) (h : ∀ z ∈ o.toList, S z) : S (o.getD s) := by
  cases o with
  | none => exact hs
  | some r => exact h r (by simp)

/-! ### ledger primitives -/

theorem bankMoveList_moves {src dst : Nat} (hs : S src) (hd : S dst) :
    ∀ {cs : List (Nat × Nat)} {w w' : World}, bankMoveList w src dst cs = .ok w' → Moves F S Q w w'
  | [], w, w', h => by
    simp only [bankMoveList] at h; injection h with h; subst h; exact .refl _
  | (d, amt) :: cs, w, w', h => by
    simp only [bankMoveList, bind_ok_iff] at h
    obtain ⟨w1, h1, h2⟩ := h
    exact (Moves.bank hs hd h1).trans (bankMoveList_moves hs hd h2)

theorem bankSend_moves {w w' : World} {src dst : Nat} {cs : List (Nat × Nat)} (hs : S src) (hd : S dst)
    (h : bankSend w src dst cs = .ok w') : Moves F S Q w w' := by
  unfold bankSend at h
  dsimp only at h
  split at h
  · cases h
  · exact bankMoveList_moves hs hd h

theorem attach_moves {w w' : World} {src dst : Nat} {cs : List (Nat × Nat)} (hs : S src) (hd : S dst)
    (h : attach w src dst cs = .ok w') : Moves F S Q w w' := by
  unfold attach at h
  split at h
  · injection h with h; subst h; exact .refl _
  · exact bankSend_moves hs hd h

theorem payout_moves {w w' : World} {src : Nat} {a : Asset} {dst amt : Nat} (hs : S src) (hd : S dst)
    (h : payout w src a dst amt = .ok w') : Moves F S Q w w' := by
  cases a with
  | native d => exact bankSend_moves hs hd h
  | token t => exact .xfer hs hd h

/-! ### pair -/

theorem pairSwap_moves {w w' : World} {p : Nat} {P : PairSt} {funds : List (Nat × Nat)} {trader : Nat}
    {offer : Asset} {amt : Nat} {b ms to : Option Nat} {o : SwapOut}
    (h : pairSwap w p P funds trader offer amt b ms to = .ok (w', o)) (hp : S p) (hr : S (to.getD trader)) :
    Moves F S Q w w' ∧ Same w w' := by
  obtain ⟨_, _, _, x, y, ask, od, ad, n, s, k, _, _, _, _, hw⟩ := C02.pairSwap_ok h
  rcases hw with ⟨_, rfl⟩ | ⟨_, hp'⟩
  · exact ⟨.refl _, Same.refl _⟩
  · exact ⟨payout_moves hp hr hp', payout_same hp'⟩

theorem pairWithdraw_inv {w w' : World} {p : Nat} {P : PairSt} {sender amount : Nat} {x : Nat × Nat}
    (h : pairWithdraw w p P sender amount = .ok (w', x)) :
    ∃ x0 x1 w1 w2, payout w p P.a0 sender x0 = .ok w1 ∧ payout w1 p P.a1 sender x1 = .ok w2 ∧
      tokBurn w2 P.lp p amount = .ok w' := by
  unfold pairWithdraw at h
  simp only [bind_ok_iff, pure_ok_iff, Prod.mk.injEq] at h
  obtain ⟨r0, _, r1, _, Sp, _, ratio, _, x0, _, x1, _, w1, h1, w2, h2, w3, h3, rfl, _⟩ := h
  exact ⟨x0, x1, w1, w2, h1, h2, h3⟩

theorem pairWithdraw_moves {w w' : World} {p : Nat} {P : PairSt} {sender amount : Nat} {x : Nat × Nat}
    (h : pairWithdraw w p P sender amount = .ok (w', x)) (hp : S p) (hs : S sender) (hQ : Q P.lp) :
    Moves F S Q w w' ∧ Same w w' := by
  obtain ⟨x0, x1, w1, w2, h1, h2, h3⟩ := pairWithdraw_inv h
  exact ⟨((payout_moves hp hs h1).trans (payout_moves hp hs h2)).trans (.burn hp hQ h3),
    ((payout_same h1).trans (payout_same h2)).trans (tokBurn_same h3).1⟩

theorem lp_supply_withdraw {w w' : World} {p : Nat} {P : PairSt} {sender amount x0 x1 : Nat}
    (h : pairWithdraw w p P sender amount = .ok (w', x0, x1)) :
    supply w' P.lp + amount = supply w P.lp := by
  obtain ⟨y0, y1, w1, w2, h1, h2, h3⟩ := pairWithdraw_inv h
  rw [← supply_payout h1, ← supply_payout h2, supply_tokBurn h3, if_pos rfl]
  obtain ⟨T, hT, _, _, hls, _⟩ := tokBurn_ok h3
  have : supply w2 P.lp = T.supply := by simp [supply, hT]
  omega

theorem pairProvide_inv {w w' : World} {p : Nat} {P : PairSt} {sender : Nat} {funds : List (Nat × Nat)}
    {as0 as1 : Asset} {am0 am1 : Nat} {tol receiver : Option Nat} {sh : Nat}
    (h : pairProvide w p P sender funds as0 am0 as1 am1 tol receiver = .ok (w', sh)) :
    ∃ d0 d1 w1 w2 w3,
      (match P.a0 with | .token t => tokTransferFrom w t p sender p d0 | .native _ => pure w : M World) = .ok w1 ∧
      (match P.a1 with | .token t => tokTransferFrom w1 t p sender p d1 | .native _ => pure w1 : M World) = .ok w2 ∧
      (if supply w P.lp = 0 then tokMint w2 P.lp p P.lp 1 else pure w2 : M World) = .ok w3 ∧
      tokMint w3 P.lp p (receiver.getD sender) sh = .ok w' := by
  unfold pairProvide at h
  simp only [bind_ok_iff] at h
  obtain ⟨_, _, _, _, r0, _, r1, _, d0, _, d1, _, _, _, _, _, _, _, _, _, _, _, _, _, _, _, Sp, hS, share, _, h⟩ := h
  split at h
  · cases h
  simp only [bind_ok_iff, pure_ok_iff, Prod.mk.injEq] at h
  obtain ⟨share', _, w1, h1, w2, h2, w3, h3, _, _, w4, h4, rfl, rfl⟩ := h
  have e := (supplyOf_ok hS).1
  subst e
  exact ⟨d0, d1, w1, w2, w3, h1, h2, h3, h4⟩

theorem pairProvide_moves {w w' : World} {p : Nat} {P : PairSt} {sender : Nat} {funds : List (Nat × Nat)}
    {as0 as1 : Asset} {am0 am1 : Nat} {tol receiver : Option Nat} {sh : Nat}
    (h : pairProvide w p P sender funds as0 am0 as1 am1 tol receiver = .ok (w', sh))
    (hp : S p) (hs : S sender) (hr : S (receiver.getD sender)) (hl : S P.lp) (hQ : Q P.lp) :
    Moves F S Q w w' := by
  obtain ⟨d0, d1, w1, w2, w3, h1, h2, h3, h4⟩ := pairProvide_inv h
  have k1 : Moves F S Q w w1 := by
    split at h1
    · exact .xferFrom hs hp h1
    · simp only [pure_ok_iff] at h1; subst h1; exact .refl _
  have k2 : Moves F S Q w1 w2 := by
    split at h2
    · exact .xferFrom hs hp h2
    · simp only [pure_ok_iff] at h2; subst h2; exact .refl _
  have k3 : Moves F S Q w2 w3 := by
    split at h3
    · exact .mint hl hQ h3
    · simp only [pure_ok_iff] at h3; subst h3; exact .refl _
  exact ((k1.trans k2).trans k3).trans (.mint hr hQ h4)

theorem lp_supply_provide {w w' : World} {p : Nat} {P : PairSt} {sender : Nat} {funds : List (Nat × Nat)}
    {as0 as1 : Asset} {am0 am1 : Nat} {tol rcv : Option Nat} {share : Nat}
    (h : pairProvide w p P sender funds as0 am0 as1 am1 tol rcv = .ok (w', share))
    (_h0 : P.a0 ≠ .token P.lp) (_h1 : P.a1 ≠ .token P.lp) :
    supply w' P.lp = supply w P.lp + share + (if supply w P.lp = 0 then 1 else 0) := by
  obtain ⟨d0, d1, w1, w2, w3, h1, h2, h3, h4⟩ := pairProvide_inv h
  have e1 : supply w1 P.lp = supply w P.lp := by
    split at h1
    · exact supply_tokTransferFrom h1 _
    · simp only [pure_ok_iff] at h1; subst h1; rfl
  have e2 : supply w2 P.lp = supply w1 P.lp := by
    split at h2
    · exact supply_tokTransferFrom h2 _
    · simp only [pure_ok_iff] at h2; subst h2; rfl
  have e3 : supply w3 P.lp = supply w2 P.lp + (if supply w P.lp = 0 then 1 else 0) := by
    by_cases hz : supply w P.lp = 0
    · rw [if_pos hz] at h3
      rw [supply_tokMint h3, if_pos rfl, if_pos hz]
    · rw [if_neg hz] at h3
      simp only [pure_ok_iff] at h3; subst h3
      rw [if_neg hz]; rfl
  rw [supply_tokMint h4, if_pos rfl, e3, e2, e1]
  omega

theorem pairReceive_moves {w w' : World} {p t from_ amount : Nat} {hk : Hook} {out : Out}
    (h : pairReceive w p t from_ amount hk = .ok (w', out)) (hp : S p) (hf : S from_)
    (hr : ∀ z ∈ hk.receivers, S z) (hlp : ∀ P, w.pair p = some P → Q P.lp) :
    Moves F S Q w w' ∧ Same w w' := by
  cases hk with
  | swap offer amt b ms to =>
    obtain ⟨P, _, _, _, _, w1, o, hs, he⟩ := C14.pairReceive_swap h
    simp only [Prod.mk.injEq] at he
    obtain ⟨rfl, _⟩ := he
    exact pairSwap_moves hs hp (getD_mem hf hr)
  | withdraw =>
    obtain ⟨P, hP, _, w1, x0, x1, hs, he⟩ := C14.pairReceive_withdraw h
    simp only [Prod.mk.injEq] at he
    obtain ⟨rfl, _⟩ := he
    exact pairWithdraw_moves hs hp hf (hlp P hP)
  | routerOps ops mn to => exact absurd h C14.pairReceive_routerOps
  | garbage => exact absurd h C14.pairReceive_garbage

theorem pairUpdateDecimals_ledger {w w' : World} {p sender denom da db : Nat}
    (h : pairUpdateDecimals w p sender denom da db = .ok w') :
    Ledger w w' ∧ w'.facAddr = w.facAddr := by
  unfold pairUpdateDecimals at h
  split at h
  · cases h
  split at h
  · cases h
  injection h with h
  subst h
  exact ⟨⟨rfl, rfl⟩, rfl⟩

theorem pairExec_moves {w w' : World} {s p : Nat} {funds : List (Nat × Nat)} {m : PairMsg} {out : Out}
    (h : pairExec w s p funds m = .ok (w', out)) (hs : S s) (hp : S p)
    (hlp : ∀ P, w.pair p = some P → S P.lp ∧ Q P.lp)
    (hm : match m with
      | .provide _ _ _ _ _ r => ∀ z ∈ r.toList, S z
      | .swap _ _ _ _ to => ∀ z ∈ to.toList, S z
      | .receive f _ hk => S f ∧ ∀ z ∈ hk.receivers, S z
      | .updateDecimals .. => True) :
    Moves F S Q w w' := by
  cases m with
  | provide as0 am0 as1 am1 tol rcv =>
    obtain ⟨P, w0, w1, sh, hP, h0, h1, he⟩ := C14.pairExec_provide h
    simp only [Prod.mk.injEq] at he
    obtain ⟨rfl, _⟩ := he
    exact (attach_moves hs hp h0).trans
      (pairProvide_moves h1 hp hs (getD_mem hs hm) (hlp P hP).1 (hlp P hP).2)
  | swap offer amt b ms to =>
    cases offer with
    | token t => exact absurd h C14.pairExec_swap_token
    | native d =>
      obtain ⟨P, w0, w1, o, _, h0, h1, he⟩ := C14.pairExec_swap_native h
      simp only [Prod.mk.injEq] at he
      obtain ⟨rfl, _⟩ := he
      exact (attach_moves hs hp h0).trans (pairSwap_moves h1 hp (getD_mem hs hm)).1
  | receive from_ amount hk =>
    obtain ⟨P, w0, _, h0, h1⟩ := C14.pairExec_receive h
    have hpair := (attach_same h0).1.pair
    exact (attach_moves hs hp h0).trans
      (pairReceive_moves h1 hp hm.1 hm.2 (fun P hP => (hlp P (hpair ▸ hP)).2)).1
  | updateDecimals d da db =>
    obtain ⟨P, w0, w1, _, h0, h1, he⟩ := C14.pairExec_updateDecimals h
    simp only [Prod.mk.injEq] at he
    obtain ⟨rfl, _⟩ := he
    exact (attach_moves hs hp h0).trans (pairUpdateDecimals_ledger h1).1.moves

/-! ### router -/

theorem tokSendPair_moves {w w' : World} {t sender p amt : Nat} {hk : Hook} {out : Out}
    (h : tokSendPair w t sender p amt hk = .ok (w', out)) (hs : S sender) (hp : S p)
    (hr : ∀ z ∈ hk.receivers, S z) (hlp : ∀ P, w.pair p = some P → Q P.lp) :
    Moves F S Q w w' ∧ Same w w' ∧ (w.pair p).isSome := by
  unfold tokSendPair at h
  simp only [bind_ok_iff] at h
  obtain ⟨w1, h1, h2⟩ := h
  have s1 := (tokTransfer_same h1).1
  obtain ⟨m2, s2⟩ := pairReceive_moves (F := F) (S := S) (Q := Q) h2 hp hs hr (fun P hP => hlp P (s1.pair ▸ hP))
  refine ⟨(Moves.xfer hs hp h1).trans m2, s1.trans s2, ?_⟩
  unfold pairReceive at h2
  rw [s1.pair] at h2
  cases hP : w.pair p with
  | none => rw [hP] at h2; cases h2
  | some P => rfl

theorem routerHop_moves {w w' : World} {sender : Nat} {offer ask : Asset} {to : Option Nat}
    (h : routerHop w sender offer ask to = .ok w')
    (hr : S w.router) (hpairs : ∀ z, (w.pair z).isSome → S z) (hto : S (to.getD w.router)) :
    Moves F S Q w w' ∧ Same w w' := by
  unfold routerHop at h
  split at h
  · cases h
  split at h
  · cases h
  rename_i R hR
  simp only [bind_ok_iff] at h
  obtain ⟨amount, _, h⟩ := h
  cases offer with
  | native d =>
    simp only [bind_ok_iff, pure_ok_iff] at h
    obtain ⟨⟨w1, o⟩, h1, rfl⟩ := h
    obtain ⟨P, w0, w2, o2, hP, h0, hsw, he⟩ := C14.pairExec_swap_native h1
    simp only [Prod.mk.injEq] at he
    obtain ⟨rfl, _⟩ := he
    have hp : S R.pair := hpairs _ (by rw [hP]; rfl)
    obtain ⟨m2, s2⟩ := pairSwap_moves (F := F) (S := S) (Q := Q) hsw hp hto
    exact ⟨(attach_moves hr hp h0).trans m2, (attach_same h0).1.trans s2⟩
  | token t =>
    simp only [bind_ok_iff, pure_ok_iff] at h
    obtain ⟨⟨w1, o⟩, h1, rfl⟩ := h
    obtain ⟨P, w0, o2, _, hP, htr, _, _, _, hsw⟩ := C02.tokSendPair_swap_ok h1
    have hp : S R.pair := hpairs _ (by rw [hP]; rfl)
    obtain ⟨m2, s2⟩ := pairSwap_moves (F := F) (S := S) (Q := Q) hsw hp hto
    exact ⟨(Moves.xfer hr hp htr).trans m2, (tokTransfer_same htr).1.trans s2⟩

theorem routerHops_moves {to : Nat} (hto : S to) : ∀ (ops : List (Asset × Asset)) {w w' : World},
    routerHops w to ops = .ok w' → S w.router → (∀ z, (w.pair z).isSome → S z) →
    Moves F S Q w w' ∧ Same w w'
  | [], w, w', h, _, _ => by
    simp only [routerHops] at h; injection h with h; subst h; exact ⟨.refl _, Same.refl _⟩
  | [(o, a)], w, w', h, hr, hp => by
    simp only [routerHops] at h
    exact routerHop_moves h hr hp hto
  | (o, a) :: b :: rest, w, w', h, hr, hp => by
    simp only [routerHops, bind_ok_iff] at h
    obtain ⟨w1, h1, h2⟩ := h
    obtain ⟨m1, s1⟩ := routerHop_moves (F := F) (S := S) (Q := Q) h1 hr hp hr
    obtain ⟨m2, s2⟩ := routerHops_moves hto (b :: rest) h2 (s1.router ▸ hr) (fun z hz => hp z (s1.pair ▸ hz))
    exact ⟨m1.trans m2, s1.trans s2⟩

theorem routerSwapOps_moves {name : Asset → String} {w w' : World} {sender : Nat} {ops : List (Asset × Asset)}
    {mn to : Option Nat} (h : routerSwapOps name w sender ops mn to = .ok w')
    (hto : S (to.getD sender)) (hr : S w.router) (hp : ∀ z, (w.pair z).isSome → S z) :
    Moves F S Q w w' := by
  unfold routerSwapOps at h
  split at h
  · cases h
  simp only [bind_ok_iff] at h
  obtain ⟨_, _, h⟩ := h
  split at h
  · exact (routerHops_moves hto _ h hr hp).1
  · simp only [bind_ok_iff, pure_ok_iff] at h
    obtain ⟨_, _, w1, h1, _, _, rfl⟩ := h
    exact (routerHops_moves hto _ h1 hr hp).1

theorem routerReceive_moves {name : Asset → String} {w w' : World} {from_ : Nat} {hk : Hook}
    (h : routerReceive name w from_ hk = .ok w') (hf : S from_) (hrc : ∀ z ∈ hk.receivers, S z)
    (hroute : hk.isRoute = true → S w.router ∧ ∀ z, (w.pair z).isSome → S z) :
    Moves F S Q w w' := by
  obtain ⟨ops, mn, to, rfl, _, _, h⟩ := routerReceive_ok h
  obtain ⟨hr, hp⟩ := hroute rfl
  exact routerSwapOps_moves h (getD_mem hf hrc) hr hp

theorem routerExec_moves {name : Asset → String} {w w' : World} {sender : Nat} {funds : List (Nat × Nat)}
    {m : RouterMsg} (h : routerExec name w sender funds m = .ok w')
    (hs : S sender) (hr : S w.router) (hp : ∀ z, (w.pair z).isSome → S z)
    (hm : match m with
      | .swapOps _ _ to => ∀ z ∈ to.toList, S z
      | .swapOp _ _ to => ∀ z ∈ to.toList, S z
      | .assertMin .. => True
      | .receive f _ hk => S f ∧ ∀ z ∈ hk.receivers, S z) :
    Moves F S Q w w' := by
  unfold routerExec at h
  simp only [bind_ok_iff] at h
  obtain ⟨w0, h0, h⟩ := h
  have s0 := (attach_same h0).1
  have hr0 : S w0.router := s0.router ▸ hr
  have hp0 : ∀ z, (w0.pair z).isSome → S z := fun z hz => hp z (s0.pair ▸ hz)
  refine (attach_moves hs hr h0).trans ?_
  cases m with
  | swapOps ops mn to =>
    simp only [bind_ok_iff] at h
    obtain ⟨_, _, h⟩ := h
    exact routerSwapOps_moves h (getD_mem hs hm) hr0 hp0
  | swapOp o a to =>
    simp only [bind_ok_iff] at h
    obtain ⟨_, _, h⟩ := h
    exact (routerHop_moves h hr0 hp0 (getD_mem hr0 hm)).1
  | assertMin a prev mn rcv =>
    simp only [bind_ok_iff, pure_ok_iff] at h
    obtain ⟨_, _, _, _, rfl⟩ := h
    exact .refl _
  | receive from_ amount hk =>
    exact routerReceive_moves h hm.1 hm.2 (fun _ => ⟨hr0, hp0⟩)

theorem tokSend_moves {name : Asset → String} {w w' : World} {t s d amt : Nat} {hk : Hook} {out : Out}
    (h : tokSend name w t s d amt hk = .ok (w', out)) (hs : S s) (hd : S d)
    (hrc : ∀ z ∈ hk.receivers, S z)
    (hroute : hk.isRoute = true → S w.router ∧ ∀ z, (w.pair z).isSome → S z)
    (hlp : ∀ P, w.pair d = some P → Q P.lp) :
    Moves F S Q w w' := by
  unfold tokSend at h
  split at h
  · exact (tokSendPair_moves h hs hd hrc hlp).1
  · split at h
    · simp only [bind_ok_iff, pure_ok_iff, Prod.mk.injEq] at h
      obtain ⟨w1, h1, w2, h2, rfl, _⟩ := h
      have s1 := (tokTransfer_same h1).1
      refine (Moves.xfer hs hd h1).trans (routerReceive_moves h2 hs hrc ?_)
      intro hi
      obtain ⟨hr, hp⟩ := hroute hi
      exact ⟨s1.router ▸ hr, fun z hz => hp z (s1.pair ▸ hz)⟩
    · cases h

theorem tokSendFrom_moves {name : Asset → String} {w w' : World} {t sp o d amt : Nat} {hk : Hook} {out : Out}
    (h : tokSendFrom name w t sp o d amt hk = .ok (w', out)) (hs : S sp) (ho : S o) (hd : S d)
    (hrc : ∀ z ∈ hk.receivers, S z)
    (hroute : hk.isRoute = true → S w.router ∧ ∀ z, (w.pair z).isSome → S z)
    (hlp : ∀ P, w.pair d = some P → Q P.lp) :
    Moves F S Q w w' := by
  obtain ⟨w1, h1, ⟨_, h2⟩ | ⟨_, _, _, h2⟩⟩ := tokSendFrom_ok h
  · have s1 := (tokTransferFrom_same h1).1
    exact (Moves.xferFrom ho hd h1).trans
      (pairReceive_moves h2 hd hs hrc (fun P hP => hlp P (s1.pair ▸ hP))).1
  · have s1 := (tokTransferFrom_same h1).1
    refine (Moves.xferFrom ho hd h1).trans (routerReceive_moves h2 hs hrc ?_)
    intro hi
    obtain ⟨hr, hp⟩ := hroute hi
    exact ⟨s1.router ▸ hr, fun z hz => hp z (s1.pair ▸ hz)⟩

/-! ### factory -/

theorem newTok_moves {w w' : World} {nl : Nat} {T : Token} (hb : w'.bank = w.bank)
    (ht : w'.tok = fun a => if a = nl then some T else w.tok a)
    (hB : ∀ z, T.bal z = 0) (hS : T.supply = 0) (hA : ∀ o s, T.allow o s = none)
    (hfresh : F → w.tok nl = none) : Moves F S Q w w' := by
  refine .quiet hb (fun hF => ?_)
  have hn := hfresh hF
  refine ⟨?_, ?_, ?_⟩
  · intro a z
    cases a with
    | native d => simp [bal, hb]
    | token u =>
      by_cases hu : u = nl
      · subst hu; simp [bal, ht, hn, hB]
      · simp [bal, ht, hu]
  · intro u
    by_cases hu : u = nl
    · subst hu; simp [supply, ht, hn, hS]
    · simp [supply, ht, hu]
  · intro u o s
    by_cases hu : u = nl
    · subst hu; simp [allowOf, ht, hn, hA]
    · simp [allowOf, ht, hu]

theorem facCreatePair_moves {w w' : World} {sender : Nat} {a0 a1 : Asset} {req : Requirements} {comm : Option Nat}
    {lpDec : Option Nat} {np nl : Nat} (h : facCreatePair w sender a0 a1 req comm lpDec np nl = .ok w')
    (hfresh : F → w.tok nl = none) : Moves F S Q w w' := by
  unfold facCreatePair at h
  split at h
  · cases h
  split at h
  · cases h
  have h' : ∃ cb : Bool, (if cb = true then (.error .err : M World) else _) = .ok w' := ⟨_, h⟩
  clear h
  obtain ⟨cb, h⟩ := h'
  split at h
  · cases h
  simp only [bind_ok_iff] at h
  obtain ⟨d0, _, d1, _, h⟩ := h
  split at h
  · cases h
  split at h
  · cases h
  have h' : ∃ cb : Bool, (if cb = true then (.error .err : M World) else _) = .ok w' := ⟨_, h⟩
  clear h
  obtain ⟨cb, h⟩ := h'
  split at h
  · cases h
  injection h with h
  subst h
  exact newTok_moves rfl rfl (fun _ => rfl) rfl (fun _ _ => rfl) hfresh

theorem facFanOut1_ledger {denom decimals : Nat} {w w' : World} {msgs msgs' : List (Nat × Nat × Nat)}
    {e : Bytes × Record} (h : facFanOut1 denom decimals (w, msgs) e = .ok (w', msgs')) : Ledger w w' := by
  unfold facFanOut1 at h
  dsimp only at h
  split at h
  · cases h
  injection h with h
  by_cases h0 : e.2.a0 = .native denom <;> by_cases h1 : e.2.a1 = .native denom <;>
    simp only [h0, h1, if_true, if_false, Prod.mk.injEq] at h <;>
    (obtain ⟨rfl, _⟩ := h; exact ⟨rfl, rfl⟩)

theorem facFanOut_fold_ledger {denom decimals : Nat} :
    ∀ (l : List (Bytes × Record)) {acc acc' : World × List (Nat × Nat × Nat)},
    l.foldlM (facFanOut1 denom decimals) acc = .ok acc' → Ledger acc.1 acc'.1
  | [], acc, acc', h => by
    simp only [List.foldlM_nil, pure_ok_iff] at h; subst h; exact Ledger.refl _
  | e :: l, (w, msgs), acc', h => by
    simp only [List.foldlM_cons, bind_ok_iff] at h
    obtain ⟨⟨w1, msgs1⟩, h1, h2⟩ := h
    exact (facFanOut1_ledger h1).trans (facFanOut_fold_ledger l h2)

theorem facFanOutMsgs_ledger {denom : Nat} : ∀ (l : List (Nat × Nat × Nat)) {w w' : World},
    facFanOutMsgs denom w l = .ok w' → Ledger w w'
  | [], w, w', h => by
    simp only [facFanOutMsgs] at h; injection h with h; subst h; exact Ledger.refl _
  | (p, da, db) :: rest, w, w', h => by
    simp only [facFanOutMsgs, bind_ok_iff] at h
    obtain ⟨w1, h1, h2⟩ := h
    exact (pairUpdateDecimals_ledger h1).1.trans (facFanOutMsgs_ledger rest h2)

theorem facAddDecimals_ledger {w w' : World} {sender denom decimals : Nat}
    (h : facAddDecimals w sender denom decimals = .ok w') : Ledger w w' := by
  unfold facAddDecimals at h
  dsimp only at h
  split at h
  · cases h
  split at h
  · cases h
  split at h
  · simp only [bind_ok_iff] at h
    obtain ⟨⟨w2, msgs⟩, h1, h2⟩ := h
    have k1 := facFanOut_fold_ledger _ h1
    have k2 := facFanOutMsgs_ledger _ h2
    exact Ledger.trans ⟨k1.bank, k1.tok⟩ k2
  · simp only [pure_ok_iff] at h
    subst h
    exact ⟨rfl, rfl⟩

theorem facUpdateConfig_ledger {w w' : World} {sender : Nat} {o tc pc : Option Nat}
    (h : facUpdateConfig w sender o tc pc = .ok w') : Ledger w w' := by
  unfold facUpdateConfig at h
  split at h
  · cases h
  split at h
  · cases h
  injection h with h
  subst h
  exact ⟨rfl, rfl⟩

theorem facMigratePair_ledger {w w' : World} {sender p : Nat} {c : Option Nat}
    (h : facMigratePair w sender p c = .ok w') :
    Ledger w w' := by
  unfold facMigratePair at h
  split at h
  · cases h
  split at h
  · cases h
  split at h
  · split at h
    · injection h with h; subst h; exact Ledger.refl _
    · cases h
  · cases h

theorem facExec_moves {w w' : World} {s : Nat} {funds : List (Nat × Nat)} {m : FacMsg}
    (h : facExec w s funds m = .ok w') (hs : S s) (hf : S w.facAddr)
    (hfresh : F → ∀ a0 a1 req c ld np nl, m = .createPair a0 a1 req c ld np nl → w.tok nl = none) :
    Moves F S Q w w' := by
  unfold facExec at h
  simp only [bind_ok_iff] at h
  obtain ⟨w0, h0, h⟩ := h
  refine (attach_moves hs hf h0).trans ?_
  have htok := (attach_same h0).2
  cases m with
  | updateConfig o tc pc => exact (facUpdateConfig_ledger h).moves
  | createPair a0 a1 req comm lpDec np nl =>
    exact facCreatePair_moves h (fun hF => htok ▸ hfresh hF a0 a1 req comm lpDec np nl rfl)
  | addDecimals d k => exact (facAddDecimals_ledger h).moves
  | migratePair p c => exact (facMigratePair_ledger h).moves

end handlers

/-! ### every operation -/

theorem isLp_of_pair {w : World} {p : Nat} {P : PairSt} (h : w.pair p = some P) : IsLp w P.lp := ⟨p, P, h, rfl⟩

theorem exec_moves {name : Asset → String} {w w' : World} {op : Op} {out : Out}
    (h : exec name w op = .ok (w', out)) :
    Moves (FreshOK w op) (Touched w op)
      (fun t => IsLp w t ∨ (∃ s amt, op = .tokBurn t s amt) ∨ ∃ sp o amt, op = .tokBurnFrom t sp o amt) w w' := by
  cases op with
  | bankSend s d cs =>
    simp only [exec, bind_ok_iff, pure_ok_iff, Prod.mk.injEq] at h
    obtain ⟨w1, h1, rfl, _⟩ := h
    exact bankSend_moves (S := Touched w (.bankSend s d cs)) (.inl rfl) (.inr rfl) h1
  | tokTransfer t s d a =>
    simp only [exec, bind_ok_iff, pure_ok_iff, Prod.mk.injEq] at h
    obtain ⟨w1, h1, rfl, _⟩ := h
    exact .xfer (S := Touched w (.tokTransfer t s d a)) (.inl rfl) (.inr rfl) h1
  | tokSend t s d a hk =>
    refine tokSend_moves (S := Touched w (.tokSend t s d a hk)) h (.inl rfl) (.inr (.inl rfl))
      (fun z hz => .inr (.inr (.inl hz))) (fun hi => ⟨.inr (.inr (.inr (.inl ⟨hi, .inr rfl⟩))),
        fun z hz => .inr (.inr (.inr (.inl ⟨hi, .inl hz⟩)))⟩) (fun P hP => .inl (isLp_of_pair hP))
  | tokIncAllow t o s a =>
    simp only [exec, bind_ok_iff, pure_ok_iff, Prod.mk.injEq] at h
    obtain ⟨w1, h1, rfl, _⟩ := h
    exact .incAllow (S := Touched w (.tokIncAllow t o s a)) rfl h1
  | tokBurn t s a =>
    simp only [exec, bind_ok_iff, pure_ok_iff, Prod.mk.injEq] at h
    obtain ⟨w1, h1, rfl, _⟩ := h
    exact .burn (S := Touched w (.tokBurn t s a)) rfl (.inr (.inl ⟨s, a, rfl⟩)) h1
  | pair s p f m =>
    refine pairExec_moves (S := Touched w (.pair s p f m)) h (.inl rfl) (.inr (.inl rfl))
      (fun P hP => ⟨.inr (.inr (.inl ⟨P, hP, rfl⟩)), .inl (isLp_of_pair hP)⟩) ?_
    cases m with
    | provide as0 am0 as1 am1 tol r => exact fun z hz => .inr (.inr (.inr hz))
    | swap offer amt b ms to => exact fun z hz => .inr (.inr (.inr hz))
    | receive f' amount hk =>
      exact ⟨.inr (.inr (.inr (.inl rfl))), fun z hz => .inr (.inr (.inr (.inr hz)))⟩
    | updateDecimals d da db => trivial
  | router s f m =>
    simp only [exec, bind_ok_iff, pure_ok_iff, Prod.mk.injEq] at h
    obtain ⟨w1, h1, rfl, _⟩ := h
    refine routerExec_moves (S := Touched w (.router s f m)) h1 (.inl rfl) (.inr (.inl rfl))
      (fun z hz => .inr (.inr (.inl hz))) ?_
    cases m with
    | swapOps ops mn to => exact fun z hz => .inr (.inr (.inr hz))
    | swapOp o a to => exact fun z hz => .inr (.inr (.inr hz))
    | assertMin a prev mn rcv => trivial
    | receive f' amount hk =>
      exact ⟨.inr (.inr (.inr (.inl rfl))), fun z hz => .inr (.inr (.inr (.inr hz)))⟩
  | factory s f m =>
    simp only [exec, bind_ok_iff, pure_ok_iff, Prod.mk.injEq] at h
    obtain ⟨w1, h1, rfl, _⟩ := h
    refine facExec_moves (S := Touched w (.factory s f m)) h1 (.inl rfl) (.inr rfl) ?_
    intro hF a0 a1 req c ld np nl hm
    exact (hF s f a0 a1 req c ld np nl (by rw [hm])).2.1
  | tokTransferFrom t sp o d a =>
    simp only [exec, bind_ok_iff, pure_ok_iff, Prod.mk.injEq] at h
    obtain ⟨w1, h1, rfl, _⟩ := h
    exact .xferFrom (S := Touched w (.tokTransferFrom t sp o d a)) (.inr (.inl rfl)) (.inr (.inr rfl)) h1
  | tokSendFrom t sp o d a hk =>
    refine tokSendFrom_moves (S := Touched w (.tokSendFrom t sp o d a hk)) h (.inl rfl) (.inr (.inl rfl))
      (.inr (.inr (.inl rfl)))
      (fun z hz => .inr (.inr (.inr (.inl hz)))) (fun hi => ⟨.inr (.inr (.inr (.inr (.inl ⟨hi, .inr rfl⟩)))),
        fun z hz => .inr (.inr (.inr (.inr (.inl ⟨hi, .inl hz⟩))))⟩) (fun P hP => .inl (isLp_of_pair hP))
  | tokBurnFrom t sp o a =>
    simp only [exec, bind_ok_iff, pure_ok_iff, Prod.mk.injEq] at h
    obtain ⟨w1, h1, rfl, _⟩ := h
    exact .burnFrom (S := Touched w (.tokBurnFrom t sp o a)) (.inr rfl) (.inr (.inr ⟨sp, o, a, rfl⟩)) h1
  | tokDecAllow t o sp a =>
    simp only [exec, bind_ok_iff, pure_ok_iff, Prod.mk.injEq] at h
    obtain ⟨w1, h1, rfl, _⟩ := h
    exact .decAllow (S := Touched w (.tokDecAllow t o sp a)) rfl h1

/-! ### the C07 statements -/

theorem step_frame {name : Asset → String} {w w' : World} {op : Op} {out : Out}
    (h : exec name w op = .ok (w', out)) (hf : FreshOK w op) (a : Asset) (z : Nat) (hz : ¬ Touched w op z) :
    bal w' a z = bal w a z :=
  (exec_moves h).frame hf a z hz

theorem allowance_frame {name : Asset → String} {w w' : World} {op : Op} {out : Out}
    (h : exec name w op = .ok (w', out)) (hf : FreshOK w op) (t o s : Nat) (T T' : Token)
    (hT : w.tok t = some T) (hT' : w'.tok t = some T') (ho : ¬ Touched w op o) : T'.allow o s = T.allow o s := by
  have := (exec_moves h).allow_frame hf t o s ho
  simpa [allowOf, hT, hT'] using this

theorem conserve_native {name : Asset → String} {w w' : World} {op : Op} {out : Out}
    (h : exec name w op = .ok (w', out)) (d : Nat) (L : List Nat) (hn : L.Nodup) (hL : ∀ z, Touched w op z → z ∈ L) :
    sumBal w' (.native d) L = sumBal w (.native d) L :=
  (exec_moves h).cons (a := .native d) (fun _ e => by cases e) L hn hL

theorem conserve_token {name : Asset → String} {w w' : World} {op : Op} {out : Out}
    (h : exec name w op = .ok (w', out)) (hf : FreshOK w op) (t : Nat) (L : List Nat) (hn : L.Nodup)
    (hL : ∀ z, Touched w op z → z ∈ L) :
    sumBal w' (.token t) L + supply w t = sumBal w (.token t) L + supply w' t :=
  (exec_moves h).cons (a := .token t) (fun _ _ => hf) L hn hL

theorem supply_non_lp {name : Asset → String} {w w' : World} {op : Op} {out : Out}
    (h : exec name w op = .ok (w', out)) (hf : FreshOK w op) (t : Nat) (hlp : ¬ IsLp w t) :
    supply w' t = supply w t ∨ (∃ s amt, op = .tokBurn t s amt) ∨ ∃ sp o amt, op = .tokBurnFrom t sp o amt := by
  by_cases hb : (∃ s amt, op = .tokBurn t s amt) ∨ ∃ sp o amt, op = .tokBurnFrom t sp o amt
  · exact .inr hb
  · exact .inl ((exec_moves h).supply_frame hf t (fun hq => hq.elim hlp hb))

end Halo.C07
