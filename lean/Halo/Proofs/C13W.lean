/-
C13W proofs — the pass-through property of a whole route (any number of hops).

  * `balOf_congr`, `qSimulation_congr`, `routerSimulate_congr` : the router's simulation reads only the
    registry, the pair states and the balances held by the pairs of the route,
  * `routerHop_sameToks` : a hop creates / removes no cw20 contract,
  * `hop_step` : `C13.hop_effect` specialised to a hop whose pair trades exactly the hop's two assets,
  * `RouteOK`, `routeOK_tail` : the route hypotheses and their preservation by the first hop,
  * `route_core` : the induction over the route,
  * `route_passthrough`, `swapOps_passthrough`.
Core Lean only.
-/
import Halo.Inv
import Halo.Proofs.C13
import Halo.Proofs.RegOK

namespace Halo.C13W
open Halo Halo.C02 Halo.C13

/-! ### the simulation reads only pair states and pair balances -/

theorem balOf_congr {w w' : World} (ht : SameToks w w') {a : Asset} {z : Nat}
    (hb : bal w' a z = bal w a z) : balOf w' a z = balOf w a z := by
  cases a with
  | native d => simp only [balOf]; rw [← bal_native w' d z, hb]; rfl
  | token t =>
    have h1 := ht t
    simp only [bal] at hb
    simp only [balOf]
    cases hT : w.tok t with
    | none =>
      cases hT' : w'.tok t with
      | none => rfl
      | some T' => rw [hT, hT'] at h1; cases h1
    | some T =>
      cases hT' : w'.tok t with
      | none => rw [hT, hT'] at h1; cases h1
      | some T' =>
        rw [hT, hT'] at hb
        simp only at hb
        simp only [hb]

theorem qSimulation_congr {w w' : World} {p : Nat} (hp : w'.pair p = w.pair p) (ht : SameToks w w')
    (hb : ∀ b, bal w' b p = bal w b p) (o : Asset) (n : Nat) :
    qSimulation w' p o n = qSimulation w p o n := by
  unfold qSimulation
  rw [hp]
  cases w.pair p with
  | none => rfl
  | some P =>
    simp only [balOf_congr ht (hb P.a0), balOf_congr ht (hb P.a1)]

theorem facLookup_same {w w' : World} (hs : Same w w') (a b : Asset) : facLookup w' a b = facLookup w a b := by
  unfold facLookup
  rw [hs.registry, hs.rawId]

theorem routerSimulate_congr {w w1 : World} (hs : Same w w1) (ht : SameToks w w1) :
    ∀ (ops : List (Asset × Asset)),
      (∀ h ∈ ops, ∀ R, facLookup w h.1 h.2 = some R → ∀ b, bal w1 b R.pair = bal w b R.pair) →
      ∀ n, routerSimulate w1 n ops = routerSimulate w n ops
  | [], _, n => rfl
  | (o, a) :: rest, hfr, n => by
    have ih := routerSimulate_congr hs ht rest (fun h hh => hfr h (List.mem_cons_of_mem _ hh))
    simp only [routerSimulate]
    rw [facLookup_same hs]
    cases hR : facLookup w o a with
    | none => rfl
    | some R =>
      have hq := qSimulation_congr (p := R.pair) (by rw [hs.pair]) ht
        (hfr (o, a) List.mem_cons_self R hR) o n
      simp only [hq]
      cases qSimulation w R.pair o n with
      | error e => rfl
      | ok r =>
        obtain ⟨m, s, k⟩ := r
        exact ih m

/-! ### a hop preserves which cw20 contracts exist -/

theorem pairSwap_sameToks {w0 w' : World} {p : Nat} {P : PairSt} {funds : List (Nat × Nat)} {trader : Nat}
    {offer : Asset} {amt : Nat} {b ms tgt : Option Nat} {o : SwapOut}
    (h : pairSwap w0 p P funds trader offer amt b ms tgt = .ok (w', o)) : SameToks w0 w' := by
  obtain ⟨_, _, _, x, y, ask, od, ad, n, s, k, _, _, _, _, hw⟩ := pairSwap_ok h
  rcases hw with ⟨_, rfl⟩ | ⟨_, hp⟩
  · exact SameToks.refl _
  · exact payout_sameToks hp

theorem routerHop_sameToks {w w' : World} {o a : Asset} {tgt : Option Nat}
    (h : routerHop w w.router o a tgt = .ok w') : SameToks w w' := by
  cases o with
  | native d =>
    obtain ⟨R, so, _, hex⟩ := routerHop_native_ok h
    obtain ⟨P, w0, _, hat, hsw⟩ := pairExec_swap_native_ok hex
    exact (sameToks_of_tok_eq (attach_same hat).2).trans (pairSwap_sameToks hsw)
  | token t =>
    obtain ⟨R, so, _, hex⟩ := routerHop_token_ok h
    obtain ⟨P, w0, o', _, _, htr, _, _, _, hsw⟩ := tokSendPair_swap_ok hex
    exact (tokTransfer_sameToks htr).trans (pairSwap_sameToks hsw)

/-! ### one hop over a pair that trades exactly the hop's assets -/

theorem hop_step {w w1 : World} {o a : Asset} {tgt : Option Nat} {R : Record} {P : PairSt}
    (hR : facLookup w o a = some R) (hP : w.pair R.pair = some P)
    (hPa : (P.a0 = o ∧ P.a1 = a) ∨ (P.a0 = a ∧ P.a1 = o)) (hoa : o ≠ a)
    (hpr : R.pair ≠ w.router) (hrp : tgt.getD w.router ≠ R.pair)
    (h : routerHop w w.router o a tgt = .ok w1) :
    ∃ n s k, bal w o w.router ≠ 0 ∧
      qSimulation w R.pair o (bal w o w.router) = .ok (n, s, k) ∧
      bal w1 o w.router = 0 ∧
      bal w1 a (tgt.getD w.router) = bal w a (tgt.getD w.router) + n ∧
      (∀ b z, (b ≠ a ∨ (z ≠ R.pair ∧ z ≠ tgt.getD w.router)) → (b ≠ o ∨ (z ≠ R.pair ∧ z ≠ w.router)) →
        bal w1 b z = bal w b z) ∧
      Same w w1 ∧ SameToks w w1 := by
  have hne : P.a0 ≠ P.a1 := by
    rcases hPa with ⟨e0, e1⟩ | ⟨e0, e1⟩
    · rw [e0, e1]; exact hoa
    · rw [e0, e1]; exact Ne.symm hoa
  obtain ⟨so, h0, hsim, _, _, hask, hao, hz, hpay, hfr⟩ := hop_effect hR hP hne hpr h
  have hsa : so.ask = a := by
    rcases hPa with ⟨e0, e1⟩ | ⟨e0, e1⟩
    · rcases hask with hh | hh
      · exact absurd (hh.trans e0) hao
      · exact hh.trans e1
    · rcases hask with hh | hh
      · exact hh.trans e0
      · exact absurd (hh.trans e1) hao
  subst hsa
  exact ⟨so.ret, so.spread, so.comm, h0, hsim, hz, hpay hrp, hfr, RegOKP.routerHop_same h, routerHop_sameToks h⟩

/-! ### the shape of `routerHops` -/

theorem routerHops_single (w : World) (rcv : Nat) (o a : Asset) :
    routerHops w rcv [(o, a)] = routerHop w w.router o a (some rcv) := by
  simp only [routerHops]

theorem routerHops_cons_cons {w w' : World} {rcv : Nat} {o a : Asset} {h2 : Asset × Asset}
    {rest : List (Asset × Asset)} (h : routerHops w rcv ((o, a) :: h2 :: rest) = .ok w') :
    ∃ w1, routerHop w w.router o a none = .ok w1 ∧ routerHops w1 rcv (h2 :: rest) = .ok w' := by
  simp only [routerHops, bind_ok_iff] at h
  exact h

/-- the first hop of a successful non-empty route succeeds -/
theorem routerHops_head_ok {w w' : World} {rcv : Nat} {o a : Asset} {rest : List (Asset × Asset)}
    (h : routerHops w rcv ((o, a) :: rest) = .ok w') :
    ∃ tgt w1, routerHop w w.router o a tgt = .ok w1 := by
  cases rest with
  | nil => rw [routerHops_single] at h; exact ⟨_, _, h⟩
  | cons h2 rest =>
    obtain ⟨w1, h1, _⟩ := routerHops_cons_cons h
    exact ⟨_, _, h1⟩

/-- the final ask asset of the route `(o, a) :: rest` -/
def lastAsk : Asset → List (Asset × Asset) → Asset
  | a, [] => a
  | _, h :: rest => lastAsk h.2 rest

theorem getLast?_lastAsk : ∀ (rest : List (Asset × Asset)) (o a : Asset),
    (((o, a) :: rest).getLast?.map (·.2)) = some (lastAsk a rest)
  | [], o, a => rfl
  | (o2, a2) :: rest, o, a => by
    rw [List.getLast?_cons_cons]
    exact getLast?_lastAsk rest o2 a2

theorem lastAsk_mem : ∀ (rest : List (Asset × Asset)) (o a : Asset),
    ∃ h ∈ (o, a) :: rest, lastAsk a rest = h.2
  | [], o, a => ⟨(o, a), List.mem_cons_self, rfl⟩
  | (o2, a2) :: rest, o, a => by
    obtain ⟨h, hm, he⟩ := lastAsk_mem rest o2 a2
    exact ⟨h, List.mem_cons_of_mem _ hm, he⟩

/-! ### the route hypotheses -/

/-- the hypotheses under which a route is a pure pass-through, checked hop by hop against the state
in which the route starts: every hop resolves to a registered pair over exactly its two (distinct) assets,
the pairs are pairwise distinct, none is the router or the recipient, and the router holds nothing of any
asset of the route other than the first hop's offer asset -/
structure RouteOK (w : World) (rcv : Nat) (ops : List (Asset × Asset)) : Prop where
  resolves : ∀ h ∈ ops, ∃ R P, facLookup w h.1 h.2 = some R ∧ w.pair R.pair = some P ∧
      ((P.a0 = h.1 ∧ P.a1 = h.2) ∨ (P.a0 = h.2 ∧ P.a1 = h.1)) ∧ h.1 ≠ h.2 ∧ R.pair ≠ w.router ∧ R.pair ≠ rcv
  distinctPairs : (ops.map fun h => (facLookup w h.1 h.2).map (·.pair)).Nodup
  routerEmpty : ∀ h ∈ ops, ∀ b, (b = h.1 ∨ b = h.2) → b ≠ (ops.head?.map (·.1)).getD b → bal w b w.router = 0
  rcvNotRouter : rcv ≠ w.router
  routerNoPair : (w.pair w.router).isNone

theorem RouteOK.head {w : World} {rcv : Nat} {o a : Asset} {rest : List (Asset × Asset)}
    (hok : RouteOK w rcv ((o, a) :: rest)) :
    ∃ R P, facLookup w o a = some R ∧ w.pair R.pair = some P ∧
      ((P.a0 = o ∧ P.a1 = a) ∨ (P.a0 = a ∧ P.a1 = o)) ∧ o ≠ a ∧ R.pair ≠ w.router ∧ R.pair ≠ rcv :=
  hok.resolves (o, a) List.mem_cons_self

/-- the router holds nothing of any route asset other than the first offer asset -/
theorem RouteOK.empty {w : World} {rcv : Nat} {o a : Asset} {rest : List (Asset × Asset)}
    (hok : RouteOK w rcv ((o, a) :: rest)) {h : Asset × Asset} (hm : h ∈ (o, a) :: rest) {b : Asset}
    (hb : b = h.1 ∨ b = h.2) (hbo : b ≠ o) : bal w b w.router = 0 :=
  hok.routerEmpty h hm b hb hbo

/-- the pairs of the later hops differ from the pair of the first hop -/
theorem RouteOK.pair_ne {w : World} {rcv : Nat} {o a : Asset} {rest : List (Asset × Asset)}
    (hok : RouteOK w rcv ((o, a) :: rest)) {R : Record} (hR : facLookup w o a = some R)
    {h : Asset × Asset} (hm : h ∈ rest) {R' : Record} (hR' : facLookup w h.1 h.2 = some R') :
    R'.pair ≠ R.pair := by
  have hnd := hok.distinctPairs
  rw [List.map_cons, List.nodup_cons] at hnd
  intro e
  apply hnd.1
  rw [List.mem_map]
  refine ⟨h, hm, ?_⟩
  simp only [hR, hR', Option.map_some, e]

/-- what the first (non-final) hop of a successful route does, and that the route hypotheses hold again
for the remaining hops in the resulting world -/
theorem route_first_hop {w w1 w' : World} {rcv : Nat} {o a o2 a2 : Asset} {rest : List (Asset × Asset)}
    (hok : RouteOK w rcv ((o, a) :: (o2, a2) :: rest))
    (h1 : routerHop w w.router o a none = .ok w1)
    (h2 : routerHops w1 rcv ((o2, a2) :: rest) = .ok w') :
    ∃ R n s k, facLookup w o a = some R ∧
      qSimulation w R.pair o (bal w o w.router) = .ok (n, s, k) ∧
      o2 = a ∧ bal w1 a w.router = n ∧ bal w1 o w.router = 0 ∧
      (∀ b z, (b ≠ a ∨ (z ≠ R.pair ∧ z ≠ w.router)) → (b ≠ o ∨ (z ≠ R.pair ∧ z ≠ w.router)) →
        bal w1 b z = bal w b z) ∧
      Same w w1 ∧ SameToks w w1 ∧ RouteOK w1 rcv ((o2, a2) :: rest) := by
  obtain ⟨R, P, hR, hP, hPa, hoa, hpr, hprcv⟩ := hok.head
  obtain ⟨n, s, k, _, hsim, hz, hpay, hfr, hs, ht⟩ :=
    hop_step (tgt := none) hR hP hPa hoa hpr (Ne.symm hpr) h1
  have hg : (none : Option Nat).getD w.router = w.router := rfl
  rw [hg] at hpay hfr
  have ha0 : bal w a w.router = 0 := hok.empty List.mem_cons_self (Or.inr rfl) (Ne.symm hoa)
  rw [ha0, Nat.zero_add] at hpay
  -- the next hop finds a non-zero balance of its offer asset, which must be the asset just received
  have ho2 : o2 = a := by
    obtain ⟨tgt, w2, hh⟩ := routerHops_head_ok h2
    obtain ⟨_, _, _, _, hnz, _⟩ := hop_spends_whole_balance hh
    rw [hs.router] at hnz
    apply Classical.byContradiction
    intro hne
    apply hnz
    by_cases hoo : o2 = o
    · rw [hoo]; exact hz
    · rw [hfr o2 w.router (Or.inl hne) (Or.inl hoo)]
      exact hok.empty (List.mem_cons_of_mem _ List.mem_cons_self) (Or.inl rfl) hoo
  refine ⟨R, n, s, k, hR, hsim, ho2, hpay, hz, hfr, hs, ht, ?_⟩
  constructor
  · intro h hm
    obtain ⟨R', P', e1, e2, e3, e4, e5, e6⟩ := hok.resolves h (List.mem_cons_of_mem _ hm)
    refine ⟨R', P', ?_, ?_, e3, e4, ?_, e6⟩
    · rw [facLookup_same hs]; exact e1
    · rw [hs.pair]; exact e2
    · rw [hs.router]; exact e5
  · have hnd := hok.distinctPairs
    rw [List.map_cons, List.nodup_cons] at hnd
    have hc : (fun h : Asset × Asset => (facLookup w1 h.1 h.2).map (·.pair)) =
        (fun h : Asset × Asset => (facLookup w h.1 h.2).map (·.pair)) := by
      funext h; rw [facLookup_same hs]
    rw [hc]
    exact hnd.2
  · intro h hm b hb hbo
    have hbo' : b ≠ a := by rw [← ho2]; exact hbo
    rw [hs.router]
    by_cases hbo1 : b = o
    · rw [hbo1]; exact hz
    · rw [hfr b w.router (Or.inl hbo') (Or.inl hbo1)]
      exact hok.empty (List.mem_cons_of_mem _ hm) hb hbo1
  · rw [hs.router]; exact hok.rcvNotRouter
  · rw [hs.router, hs.pair]; exact hok.routerNoPair

/-- `b` is one of the assets of the route -/
def OnRoute (b : Asset) (ops : List (Asset × Asset)) : Prop := ∃ h ∈ ops, b = h.1 ∨ b = h.2

/-- the induction over the route -/
theorem route_core {rcv : Nat} : ∀ (rest : List (Asset × Asset)) (o a : Asset) (w w' : World),
    RouteOK w rcv ((o, a) :: rest) → routerHops w rcv ((o, a) :: rest) = .ok w' →
    ∃ n, routerSimulate w (bal w o w.router) ((o, a) :: rest) = .ok n ∧
      bal w' (lastAsk a rest) rcv = bal w (lastAsk a rest) rcv + n ∧
      (∀ b, OnRoute b ((o, a) :: rest) → bal w' b w.router = 0) ∧
      (∀ b, b ≠ lastAsk a rest → bal w' b rcv = bal w b rcv) ∧
      (∀ b, ¬ OnRoute b ((o, a) :: rest) → ∀ z, bal w' b z = bal w b z)
  | [], o, a, w, w', hok, h => by
    rw [routerHops_single] at h
    obtain ⟨R, P, hR, hP, hPa, hoa, hpr, hprcv⟩ := hok.head
    have hg : (some rcv).getD w.router = rcv := rfl
    obtain ⟨n, s, k, _, hsim, hz, hpay, hfr, hs, ht⟩ :=
      hop_step (tgt := some rcv) hR hP hPa hoa hpr (by rw [hg]; exact Ne.symm hprcv) h
    rw [hg] at hpay hfr
    have hrr := hok.rcvNotRouter
    refine ⟨n, ?_, hpay, ?_, ?_, ?_⟩
    · rw [router_sim_cons hR hsim]; rfl
    · rintro b ⟨h, hm, hb⟩
      rw [List.mem_singleton] at hm
      subst hm
      by_cases hbo : b = o
      · rw [hbo]; exact hz
      · rw [hfr b w.router (Or.inr ⟨Ne.symm hpr, Ne.symm hrr⟩) (Or.inl hbo)]
        exact hok.empty List.mem_cons_self hb hbo
    · intro b hb
      exact hfr b rcv (Or.inl hb) (Or.inr ⟨Ne.symm hprcv, hrr⟩)
    · intro b hb z
      have h1 : b ≠ a := fun e => hb ⟨(o, a), List.mem_cons_self, Or.inr e⟩
      have h2 : b ≠ o := fun e => hb ⟨(o, a), List.mem_cons_self, Or.inl e⟩
      exact hfr b z (Or.inl h1) (Or.inl h2)
  | (o2, a2) :: rest, o, a, w, w', hok, h => by
    obtain ⟨w1, h1, h2⟩ := routerHops_cons_cons h
    obtain ⟨R, n1, s1, k1, hR, hsim, ho2, hbal, hz, hfr, hs, ht, hok1⟩ := route_first_hop hok h1 h2
    subst ho2
    obtain ⟨_, _, hR0, _, _, hoa, hpr, hprcv⟩ := hok.head
    rw [hR] at hR0; injection hR0 with hR0; subst hR0
    have hrr := hok.rcvNotRouter
    obtain ⟨n, isim, ipay, izero, ircv, ifr⟩ := route_core rest o2 a2 w1 w' hok1 h2
    rw [hs.router] at isim izero
    rw [hbal] at isim
    -- the pairs of the remaining hops hold in `w1` what they held in `w`
    have hpairs : ∀ h ∈ (o2, a2) :: rest, ∀ R', facLookup w h.1 h.2 = some R' →
        ∀ b, bal w1 b R'.pair = bal w b R'.pair := by
      intro h hm R' hR' b
      obtain ⟨R'', _, e1, _, _, _, e5, _⟩ := hok.resolves h (List.mem_cons_of_mem _ hm)
      rw [hR'] at e1; injection e1 with e1; subst e1
      have hne := hok.pair_ne hR hm hR'
      exact hfr b R'.pair (Or.inr ⟨hne, e5⟩) (Or.inr ⟨hne, e5⟩)
    rw [routerSimulate_congr hs ht _ hpairs] at isim
    -- the recipient is not touched by the first hop
    have hrcv : ∀ b, bal w1 b rcv = bal w b rcv := fun b =>
      hfr b rcv (Or.inr ⟨Ne.symm hprcv, hrr⟩) (Or.inr ⟨Ne.symm hprcv, hrr⟩)
    refine ⟨n, ?_, ?_, ?_, ?_, ?_⟩
    · rw [router_sim_cons hR hsim]; exact isim
    · show bal w' (lastAsk a2 rest) rcv = bal w (lastAsk a2 rest) rcv + n
      rw [ipay, hrcv]
    · rintro b ⟨h, hm, hb⟩
      by_cases hon : OnRoute b ((o2, a2) :: rest)
      · exact izero b hon
      · rw [ifr b hon w.router]
        rcases List.mem_cons.1 hm with e | hm'
        · subst e
          rcases hb with hb | hb
          · rw [hb]; exact hz
          · exact absurd ⟨(o2, a2), List.mem_cons_self, Or.inl hb⟩ hon
        · exact absurd ⟨h, hm', hb⟩ hon
    · intro b hb
      rw [ircv b hb, hrcv]
    · intro b hb z
      have hon : ¬ OnRoute b ((o2, a2) :: rest) := fun ⟨h, hm, e⟩ => hb ⟨h, List.mem_cons_of_mem _ hm, e⟩
      have h1 : b ≠ o2 := fun e => hb ⟨(o, o2), List.mem_cons_self, Or.inr e⟩
      have h2 : b ≠ o := fun e => hb ⟨(o, o2), List.mem_cons_self, Or.inl e⟩
      rw [ifr b hon z]
      exact hfr b z (Or.inl h1) (Or.inl h2)

/-- the hops of a successful route deliver exactly the router's quote -/
theorem route_passthrough {w w' : World} {rcv : Nat} {ops : List (Asset × Asset)}
    (hok : RouteOK w rcv ops) (hne : ops ≠ [])
    (h : routerHops w rcv ops = .ok w') :
    ∃ target n, (ops.getLast?.map (·.2)) = some target ∧
      routerSimulateTop w (bal w ((ops.head?.map (·.1)).getD target) w.router) ops = .ok n ∧
      (∀ first, ops.head?.map (·.1) = some first → first ≠ target →
        bal w' target rcv = bal w target rcv + n) ∧
      (∀ hp ∈ ops, ∀ b, (b = hp.1 ∨ b = hp.2) → b ≠ target → bal w' b w.router = 0) ∧
      bal w' target w.router = bal w target w.router -
        (if ops.head?.map (·.1) = some target then bal w target w.router else 0) ∧
      (∀ b, b ≠ target → bal w' b rcv = bal w b rcv) := by
  cases ops with
  | nil => exact absurd rfl hne
  | cons h0 rest =>
    obtain ⟨o, a⟩ := h0
    obtain ⟨n, hsim, hpay, hzero, hrcv, _⟩ := route_core rest o a w w' hok h
    refine ⟨lastAsk a rest, n, getLast?_lastAsk rest o a, ?_, fun _ _ _ => hpay,
      fun hp hm b hb _ => hzero b ⟨hp, hm, hb⟩, ?_, hrcv⟩
    · unfold routerSimulateTop
      rw [if_neg (List.cons_ne_nil _ _)]
      exact hsim
    · obtain ⟨hl, hlm, hle⟩ := lastAsk_mem rest o a
      rw [hzero _ ⟨hl, hlm, Or.inr hle⟩]
      show 0 = bal w (lastAsk a rest) w.router -
        (if some o = some (lastAsk a rest) then bal w (lastAsk a rest) w.router else 0)
      by_cases e : o = lastAsk a rest
      · rw [if_pos (congrArg some e), Nat.sub_self]
      · rw [if_neg (fun hh => e (Option.some.inj hh)), Nat.sub_zero]
        exact (hok.empty hlm (Or.inr hle) (Ne.symm e)).symm

/-- the whole `ExecuteSwapOperations` transaction is the hops of its route (the trailing minimum-receive
assertion changes nothing), and the route is not empty -/
theorem swapOps_passthrough {name : Asset → String} {w w' : World} {sender : Nat} {ops : List (Asset × Asset)}
    {mn tgt : Option Nat} (_hok : RouteOK w (tgt.getD sender) ops)
    (h : routerSwapOps name w sender ops mn tgt = .ok w') :
    routerHops w (tgt.getD sender) ops = .ok w' ∧ ops ≠ [] := by
  have hne : ops ≠ [] := by
    intro e
    subst e
    simp [routerSwapOps] at h
  refine ⟨?_, hne⟩
  unfold routerSwapOps at h
  cases hl : ops.getLast? with
  | none => rw [hl] at h; cases h
  | some last =>
    rw [hl] at h
    simp only [bind_ok_iff] at h
    obtain ⟨_, _, h⟩ := h
    cases mn with
    | none => exact h
    | some m =>
      simp only [bind_ok_iff, pure_ok_iff] at h
      obtain ⟨_, _, w1, hh, _, _, rfl⟩ := h
      exact hh

end Halo.C13W
