/-
Bounds — proofs for `Halo/Props/C07R.lean` (the frame of a router route) and `Halo/Props/C20B.lean` (the 128-bit
bounds as invariants).

  1. route frame: `C07.Moves` is re-derived for the router with a source / sink set that contains, of the pair
     contracts, only those that some hop of the route resolves to (`routerHop_moves'`, `routerHops_moves'`,
     `routerSwapOps_moves'`; the registry and the raw identifiers, which are all `facLookup` reads, are part of
     `Same`, so the resolution of every hop may be taken in the world at entry); the frame is `Moves.frame`.
  2. bounds:
     (a) `supply w t < W` is preserved by every ledger primitive (a mint fails when the new supply would reach
         `W`), hence by `Moves`, hence by every operation; `CreatePair` is treated apart so that no freshness
         assumption is needed (the new token starts with supply 0 whatever was at its address),
     (b) `NativeBound w d` (every duplicate-free list of accounts holds less than `W` of denom `d`) is preserved
         by every ledger primitive — a bank move by `sum_move_le`, everything else leaves the bank alone — hence
         by `Moves`, hence by every operation, with no assumption at all,
     (c) `AssetBound` packages what is needed of an asset; it is preserved along valid histories and bounds every
         balance, which discharges the three 128-bit hypotheses of `C03G.withdraw_live_after_history`.
Core Lean only.
-/
import Halo.Inv
import Halo.Proofs.C07
import Halo.Proofs.Flows
import Halo.Proofs.Liquidity
import Halo.Proofs.C03G

namespace Halo.Bounds
open Halo

/-! ## 1. the frame of a route -/

/-- `facLookup` reads only the registry and the raw identifiers -/
theorem facLookup_same {w w' : World} (h : Same w w') (o a : Asset) : facLookup w' o a = facLookup w o a := by
  unfold facLookup
  rw [h.registry, h.rawId]

/-- `z` is a pair contract that some hop of the route resolves to -/
def OnRoute (w : World) (ops : List (Asset × Asset)) (z : Nat) : Prop :=
  ∃ o a R, (o, a) ∈ ops ∧ facLookup w o a = some R ∧ R.pair = z

section route
variable {F : Prop} {S Q : Nat → Prop}

/-- one hop: only the router, the pair this hop resolves to, and the recipient of this hop are involved -/
theorem routerHop_moves' {w w' : World} {sender : Nat} {offer ask : Asset} {tt : Option Nat}
    (h : routerHop w sender offer ask tt = .ok w')
    (hr : S w.router) (hpair : ∀ R, facLookup w offer ask = some R → S R.pair) (hto : S (tt.getD w.router)) :
    C07.Moves F S Q w w' ∧ Same w w' := by
  unfold routerHop at h
  split at h
  · cases h
  split at h
  · cases h
  rename_i R hR
  have hp : S R.pair := hpair R hR
  simp only [bind_ok_iff] at h
  obtain ⟨amount, _, h⟩ := h
  cases offer with
  | native d =>
    simp only [bind_ok_iff, pure_ok_iff] at h
    obtain ⟨⟨w1, o⟩, h1, rfl⟩ := h
    obtain ⟨P, w0, w2, o2, _, h0, hsw, he⟩ := C14.pairExec_swap_native h1
    simp only [Prod.mk.injEq] at he
    obtain ⟨rfl, _⟩ := he
    obtain ⟨m2, s2⟩ := C07.pairSwap_moves (F := F) (S := S) (Q := Q) hsw hp hto
    exact ⟨(C07.attach_moves hr hp h0).trans m2, (attach_same h0).1.trans s2⟩
  | token t =>
    simp only [bind_ok_iff, pure_ok_iff] at h
    obtain ⟨⟨w1, o⟩, h1, rfl⟩ := h
    obtain ⟨P, w0, o2, _, _, htr, _, _, _, hsw⟩ := C02.tokSendPair_swap_ok h1
    obtain ⟨m2, s2⟩ := C07.pairSwap_moves (F := F) (S := S) (Q := Q) hsw hp hto
    exact ⟨(C07.Moves.xfer hr hp htr).trans m2, (tokTransfer_same htr).1.trans s2⟩

/-- the hops of a route: the router, the recipient, and the pairs the hops resolve to (in the world at entry) -/
theorem routerHops_moves' {rcv : Nat} (hto : S rcv) : ∀ (ops : List (Asset × Asset)) {w w' : World},
    routerHops w rcv ops = .ok w' → S w.router →
    (∀ o a R, (o, a) ∈ ops → facLookup w o a = some R → S R.pair) →
    C07.Moves F S Q w w' ∧ Same w w'
  | [], w, w', h, _, _ => by
    simp only [routerHops] at h; injection h with h; subst h; exact ⟨.refl _, Same.refl _⟩
  | [(o, a)], w, w', h, hr, hp => by
    simp only [routerHops] at h
    exact routerHop_moves' h hr (fun R hR => hp o a R (List.mem_cons_self ..) hR) hto
  | (o, a) :: b :: rest, w, w', h, hr, hp => by
    simp only [routerHops, bind_ok_iff] at h
    obtain ⟨w1, h1, h2⟩ := h
    obtain ⟨m1, s1⟩ := routerHop_moves' (F := F) (S := S) (Q := Q) h1 hr
      (fun R hR => hp o a R (List.mem_cons_self ..) hR) hr
    obtain ⟨m2, s2⟩ := routerHops_moves' hto (b :: rest) h2 (s1.router ▸ hr)
      (fun o' a' R hm hR => hp o' a' R (List.mem_cons_of_mem _ hm) (by rw [← facLookup_same s1]; exact hR))
    exact ⟨m1.trans m2, s1.trans s2⟩

theorem routerSwapOps_moves' {name : Asset → String} {w w' : World} {sender : Nat} {ops : List (Asset × Asset)}
    {mn tt : Option Nat} (h : routerSwapOps name w sender ops mn tt = .ok w')
    (hto : S (tt.getD sender)) (hr : S w.router)
    (hp : ∀ o a R, (o, a) ∈ ops → facLookup w o a = some R → S R.pair) :
    C07.Moves F S Q w w' := by
  unfold routerSwapOps at h
  split at h
  · cases h
  simp only [bind_ok_iff] at h
  obtain ⟨_, _, h⟩ := h
  split at h
  · exact (routerHops_moves' hto _ h hr hp).1
  · simp only [bind_ok_iff, pure_ok_iff] at h
    obtain ⟨_, _, w1, h1, _, _, rfl⟩ := h
    exact (routerHops_moves' hto _ h1 hr hp).1

end route

/-- the accounts a route may touch: the actor `s`, the router, the recipient `rcv`, the pairs on the route -/
def RouteSet (w : World) (s rcv : Nat) (ops : List (Asset × Asset)) (z : Nat) : Prop :=
  z = s ∨ z = w.router ∨ z = rcv ∨ OnRoute w ops z

theorem not_routeSet {w : World} {s rcv z : Nat} {ops : List (Asset × Asset)} (hs : z ≠ s) (hr : z ≠ w.router)
    (hrcv : z ≠ rcv) (hp : ¬ ∃ o a R, (o, a) ∈ ops ∧ facLookup w o a = some R ∧ R.pair = z) :
    ¬ RouteSet w s rcv ops z := by
  rintro (e | e | e | e)
  · exact hs e
  · exact hr e
  · exact hrcv e
  · exact hp e

/-- `ExecuteSwapOperations` sent to the router: the attached funds go to the router, then the hops run -/
theorem swapOps_moves {name : Asset → String} {w w' : World} {s : Nat} {funds : List (Nat × Nat)}
    {ops : List (Asset × Asset)} {mn toAddr : Option Nat} {out : Out}
    (h : exec name w (.router s funds (.swapOps ops mn toAddr)) = .ok (w', out)) :
    C07.Moves True (RouteSet w s (toAddr.getD s) ops) (fun _ => False) w w' := by
  simp only [exec, bind_ok_iff, pure_ok_iff, Prod.mk.injEq] at h
  obtain ⟨w1, h1, rfl, _⟩ := h
  unfold routerExec at h1
  simp only [bind_ok_iff] at h1
  obtain ⟨w0, h0, _, _, h1⟩ := h1
  have s0 := (attach_same h0).1
  refine (C07.attach_moves (.inl rfl) (.inr (.inl rfl)) h0).trans ?_
  refine routerSwapOps_moves' h1 (.inr (.inr (.inl rfl))) (.inr (.inl s0.router)) ?_
  intro o a R hm hR
  exact .inr (.inr (.inr ⟨o, a, R, hm, by rw [← facLookup_same s0]; exact hR, rfl⟩))

/-- a raw `Receive` sent to the router by anybody: the default recipient is the `from` field -/
theorem rawReceive_moves {name : Asset → String} {w w' : World} {s f amt : Nat} {funds : List (Nat × Nat)}
    {ops : List (Asset × Asset)} {mn toAddr : Option Nat} {out : Out}
    (h : exec name w (.router s funds (.receive f amt (.routerOps ops mn toAddr))) = .ok (w', out)) :
    C07.Moves True (RouteSet w s (toAddr.getD f) ops) (fun _ => False) w w' := by
  simp only [exec, bind_ok_iff, pure_ok_iff, Prod.mk.injEq] at h
  obtain ⟨w1, h1, rfl, _⟩ := h
  unfold routerExec at h1
  simp only [bind_ok_iff] at h1
  obtain ⟨w0, h0, h1⟩ := h1
  have s0 := (attach_same h0).1
  refine (C07.attach_moves (.inl rfl) (.inr (.inl rfl)) h0).trans ?_
  obtain ⟨_, _, _, he, _, _, h1⟩ := routerReceive_ok h1
  cases he
  refine routerSwapOps_moves' h1 (.inr (.inr (.inl rfl))) (.inr (.inl s0.router)) ?_
  intro o a R hm hR
  exact .inr (.inr (.inr ⟨o, a, R, hm, by rw [← facLookup_same s0]; exact hR, rfl⟩))

/-- a cw20 `Send` to the router carrying a route: the tokens go to the router, then the hops run -/
theorem tokSendRoute_moves {name : Asset → String} {w w' : World} {t s amt : Nat}
    {ops : List (Asset × Asset)} {mn toAddr : Option Nat} {out : Out}
    (h : exec name w (.tokSend t s w.router amt (.routerOps ops mn toAddr)) = .ok (w', out)) :
    C07.Moves True (RouteSet w s (toAddr.getD s) ops) (fun _ => False) w w' := by
  simp only [exec] at h
  unfold tokSend at h
  split at h
  · -- the router's address holds a pair contract: the pair rejects the route hook
    unfold tokSendPair at h
    simp only [bind_ok_iff] at h
    obtain ⟨w1, _, h2⟩ := h
    exact absurd h2 C14.pairReceive_routerOps
  · rw [if_pos rfl] at h
    simp only [bind_ok_iff, pure_ok_iff, Prod.mk.injEq] at h
    obtain ⟨w1, h1, w2, h2, rfl, _⟩ := h
    have s1 := (tokTransfer_same h1).1
    refine (C07.Moves.xfer (.inl rfl) (.inr (.inl rfl)) h1).trans ?_
    obtain ⟨_, _, _, he, _, _, h2⟩ := routerReceive_ok h2
    cases he
    refine routerSwapOps_moves' h2 (.inr (.inr (.inl rfl))) (.inr (.inl s1.router)) ?_
    intro o a R hm hR
    exact .inr (.inr (.inr ⟨o, a, R, hm, by rw [← facLookup_same s1]; exact hR, rfl⟩))

/-- a single `ExecuteSwapOperation` (it succeeds only when the router itself submits it) -/
theorem swapOp_moves {name : Asset → String} {w w' : World} {s : Nat} {funds : List (Nat × Nat)}
    {o a : Asset} {toAddr : Option Nat} {out : Out}
    (h : exec name w (.router s funds (.swapOp o a toAddr)) = .ok (w', out)) :
    C07.Moves True (RouteSet w s (toAddr.getD w.router) [(o, a)]) (fun _ => False) w w' := by
  simp only [exec, bind_ok_iff, pure_ok_iff, Prod.mk.injEq] at h
  obtain ⟨w1, h1, rfl, _⟩ := h
  unfold routerExec at h1
  simp only [bind_ok_iff] at h1
  obtain ⟨w0, h0, _, _, h1⟩ := h1
  have s0 := (attach_same h0).1
  refine (C07.attach_moves (.inl rfl) (.inr (.inl rfl)) h0).trans ?_
  have h1 : routerHop w0 s o a toAddr = .ok w1 := h1
  refine (routerHop_moves' h1 (.inr (.inl s0.router)) ?_ (.inr (.inr (.inl (by rw [s0.router]))))).1
  intro R hR
  exact .inr (.inr (.inr ⟨o, a, R, List.mem_cons_self .., by rw [← facLookup_same s0]; exact hR, rfl⟩))

/-! ### the statements of `Halo/Props/C07R.lean` -/

theorem route_frame {name : Asset → String} {w w' : World} {s : Nat} {funds : List (Nat × Nat)}
    {ops : List (Asset × Asset)} {mn toAddr : Option Nat} {out : Out}
    (h : exec name w (.router s funds (.swapOps ops mn toAddr)) = .ok (w', out)) (z : Nat)
    (hs : z ≠ s) (hr : z ≠ w.router) (hrcv : z ≠ toAddr.getD s)
    (hp : ¬ ∃ o a R, (o, a) ∈ ops ∧ facLookup w o a = some R ∧ R.pair = z) :
    ∀ asset, bal w' asset z = bal w asset z :=
  fun asset => (swapOps_moves h).frame trivial asset z (not_routeSet hs hr hrcv hp)

theorem route_frame_hook {name : Asset → String} {w w' : World} {t s amt : Nat}
    {ops : List (Asset × Asset)} {mn toAddr : Option Nat} {out : Out}
    (h : exec name w (.tokSend t s w.router amt (.routerOps ops mn toAddr)) = .ok (w', out)) (z : Nat)
    (hs : z ≠ s) (hr : z ≠ w.router) (hrcv : z ≠ toAddr.getD s)
    (hp : ¬ ∃ o a R, (o, a) ∈ ops ∧ facLookup w o a = some R ∧ R.pair = z) :
    ∀ asset, bal w' asset z = bal w asset z :=
  fun asset => (tokSendRoute_moves h).frame trivial asset z (not_routeSet hs hr hrcv hp)

theorem route_frame_raw {name : Asset → String} {w w' : World} {s f amt : Nat} {funds : List (Nat × Nat)}
    {ops : List (Asset × Asset)} {mn toAddr : Option Nat} {out : Out}
    (h : exec name w (.router s funds (.receive f amt (.routerOps ops mn toAddr))) = .ok (w', out)) (z : Nat)
    (hs : z ≠ s) (hr : z ≠ w.router) (hrcv : z ≠ toAddr.getD f)
    (hp : ¬ ∃ o a R, (o, a) ∈ ops ∧ facLookup w o a = some R ∧ R.pair = z) :
    ∀ asset, bal w' asset z = bal w asset z :=
  fun asset => (rawReceive_moves h).frame trivial asset z (not_routeSet hs hr hrcv hp)

theorem route_frame_swapOp {name : Asset → String} {w w' : World} {s : Nat} {funds : List (Nat × Nat)}
    {o a : Asset} {toAddr : Option Nat} {out : Out}
    (h : exec name w (.router s funds (.swapOp o a toAddr)) = .ok (w', out)) (z : Nat)
    (hs : z ≠ s) (hr : z ≠ w.router) (hrcv : z ≠ toAddr.getD w.router)
    (hp : ¬ ∃ R, facLookup w o a = some R ∧ R.pair = z) :
    ∀ asset, bal w' asset z = bal w asset z := by
  intro asset
  refine (swapOp_moves h).frame trivial asset z (not_routeSet hs hr hrcv ?_)
  rintro ⟨o', a', R, hm, hR, e⟩
  rw [List.mem_singleton] at hm
  injection hm with e1 e2
  subst e1 e2
  exact hp ⟨R, hR, e⟩

/-- allowances of the accounts off the route are untouched as well (a route consumes no allowance at all, but
the frame form is what `Moves` gives) -/
theorem route_allow_frame {name : Asset → String} {w w' : World} {s : Nat} {funds : List (Nat × Nat)}
    {ops : List (Asset × Asset)} {mn toAddr : Option Nat} {out : Out}
    (h : exec name w (.router s funds (.swapOps ops mn toAddr)) = .ok (w', out)) (z : Nat)
    (hs : z ≠ s) (hr : z ≠ w.router) (hrcv : z ≠ toAddr.getD s)
    (hp : ¬ ∃ o a R, (o, a) ∈ ops ∧ facLookup w o a = some R ∧ R.pair = z) :
    ∀ t sp, C07.allowOf w' t z sp = C07.allowOf w t z sp :=
  fun t sp => (swapOps_moves h).allow_frame trivial t z sp (not_routeSet hs hr hrcv hp)

/-- a route mints and burns nothing: every cw20 supply is unchanged -/
theorem route_supply {name : Asset → String} {w w' : World} {s : Nat} {funds : List (Nat × Nat)}
    {ops : List (Asset × Asset)} {mn toAddr : Option Nat} {out : Out}
    (h : exec name w (.router s funds (.swapOps ops mn toAddr)) = .ok (w', out)) (t : Nat) :
    supply w' t = supply w t :=
  (swapOps_moves h).supply_frame trivial t (fun e => e)

/-! ## 2. histories -/

theorem run_preserves {name : Asset → String} {P : World → Prop}
    (hP : ∀ (w w' : World) (op : Op) (out : Out), exec name w op = .ok (w', out) → P w → P w') :
    ∀ (ops : List Op) (w : World), P w → P (run name w ops)
  | [], _, h => h
  | op :: rest, w, h => by
    rw [C03W.run_cons]
    cases hE : exec name w op with
    | error e =>
      have hst : step name w op = w := by unfold step; rw [hE]
      rw [hst]
      exact run_preserves hP rest w h
    | ok r =>
      obtain ⟨w1, out⟩ := r
      have hst : step name w op = w1 := by unfold step; rw [hE]
      rw [hst]
      exact run_preserves hP rest w1 (hP w w1 op out hE h)

theorem validRun_preserves {name : Asset → String} {P : World → Prop}
    (hP : ∀ (w w' : World) (op : Op) (out : Out), ValidOp w op → exec name w op = .ok (w', out) → P w → P w') :
    ∀ (ops : List Op) (w : World), ValidRun name w ops → P w → P (run name w ops)
  | [], _, _, h => h
  | op :: rest, w, hv, h => by
    simp only [ValidRun] at hv
    obtain ⟨hv1, hv2⟩ := hv
    rw [C03W.run_cons]
    cases hE : exec name w op with
    | error e =>
      have hst : step name w op = w := by unfold step; rw [hE]
      rw [hst] at hv2 ⊢
      exact validRun_preserves hP rest w hv2 h
    | ok r =>
      obtain ⟨w1, out⟩ := r
      have hst : step name w op = w1 := by unfold step; rw [hE]
      rw [hst] at hv2 ⊢
      exact validRun_preserves hP rest w1 hv2 (hP w w1 op out hv1 hE h)

/-! ## 2(a). cw20 supplies stay below 2^128 -/

theorem moves_supply_lt_W {F : Prop} {S Q : Nat → Prop} {w w' : World} (h : C07.Moves F S Q w w') (hF : F)
    (t : Nat) : supply w t < W → supply w' t < W := by
  induction h with
  | refl w => exact fun h => h
  | trans _ _ ih1 ih2 => exact fun h => ih2 (ih1 h)
  | bank _ _ h => rw [supply_bankMove1 h]; exact fun h => h
  | xfer _ _ h => rw [supply_tokTransfer h]; exact fun h => h
  | xferFrom _ _ h => rw [supply_tokTransferFrom h]; exact fun h => h
  | @mint w w' u sd dst amt _ _ h =>
    intro hb
    rw [supply_tokMint h]
    by_cases hu : t = u
    · subst hu
      rw [if_pos rfl]
      obtain ⟨T, hT, _, _, hlt, _⟩ := tokMint_ok h
      have : supply w t = T.supply := by simp [supply, hT]
      omega
    · rw [if_neg hu]; exact hb
  | @burn w w' u sd amt _ _ h =>
    intro hb
    rw [supply_tokBurn h]
    split
    · omega
    · exact hb
  | incAllow _ h => rw [supply_tokIncAllow h]; exact fun h => h
  | @burnFrom w w' u sp owner amt _ _ h =>
    intro hb
    rw [supply_tokBurnFrom h]
    split
    · omega
    · exact hb
  | decAllow _ h => rw [supply_tokDecAllow h]; exact fun h => h
  | quiet _ hq => rw [(hq hF).2.1 t]; exact fun h => h

/-- every operation keeps every cw20 supply below 2^128 (no assumption on the operation) -/
theorem supply_lt_W_step {name : Asset → String} {w w' : World} {op : Op} {out : Out}
    (h : exec name w op = .ok (w', out)) (t : Nat) (hb : supply w t < W) : supply w' t < W := by
  by_cases hc : ∃ s f a0 a1 req c ld np nl, op = .factory s f (.createPair a0 a1 req c ld np nl)
  · obtain ⟨s, f, a0, a1, req, c, ld, np, nl, rfl⟩ := hc
    simp only [exec, bind_ok_iff, pure_ok_iff, Prod.mk.injEq] at h
    obtain ⟨w1, h1, rfl, _⟩ := h
    unfold facExec at h1
    simp only [bind_ok_iff] at h1
    obtain ⟨w0, h0, h1⟩ := h1
    have htok := (attach_same h0).2
    have h1 : facCreatePair w0 s a0 a1 req c ld np nl = .ok w1 := h1
    obtain ⟨_, _, _, d0, d1, _, _, _, rfl⟩ := RegOKP.facCreatePair_inv h1
    by_cases ht : t = nl
    · subst ht
      have : supply
        { w0 with
          pair := fun a => if a = np then some
            { a0 := a0, a1 := a1, d0 := d0, d1 := d1, lp := t, comm := c.getD defaultCommission, req := req,
              factory := w0.facAddr } else w0.pair a
          tok := fun a => if a = t then some
            { bal := fun _ => 0, allow := fun _ _ => none, supply := 0, minter := some np, decimals := ld.getD 6 }
            else w0.tok a
          registry := regInsert (pairKey (w0.rawId a0) (w0.rawId a1))
            { a0 := a0, a1 := a1, pair := np, lp := t, d0 := d0, d1 := d1, req := req,
              comm := c.getD defaultCommission } w0.registry } t = 0 := by
        simp [supply]
      rw [this]
      exact W_pos
    · have : supply
        { w0 with
          pair := fun a => if a = np then some
            { a0 := a0, a1 := a1, d0 := d0, d1 := d1, lp := nl, comm := c.getD defaultCommission, req := req,
              factory := w0.facAddr } else w0.pair a
          tok := fun a => if a = nl then some
            { bal := fun _ => 0, allow := fun _ _ => none, supply := 0, minter := some np, decimals := ld.getD 6 }
            else w0.tok a
          registry := regInsert (pairKey (w0.rawId a0) (w0.rawId a1))
            { a0 := a0, a1 := a1, pair := np, lp := nl, d0 := d0, d1 := d1, req := req,
              comm := c.getD defaultCommission } w0.registry } t = supply w t := by
        simp [supply, ht, htok]
      rw [this]
      exact hb
  · have hf : FreshOK w op := by
      intro s f a0 a1 req c ld np nl e
      exact absurd ⟨s, f, a0, a1, req, c, ld, np, nl, e⟩ hc
    exact moves_supply_lt_W (C07.exec_moves h) hf t hb

/-- … hence along every history, valid or not -/
theorem supply_lt_W_run {name : Asset → String} (t : Nat) (ops : List Op) (w : World) (hb : supply w t < W) :
    supply (run name w ops) t < W :=
  run_preserves (P := fun w => supply w t < W) (fun _ _ _ _ h hb => supply_lt_W_step h t hb) ops w hb

theorem token_bal_lt_W {w : World} {t : Nat} (hk : TokSumOK w t) (hb : supply w t < W) (z : Nat) :
    bal w (.token t) z < W :=
  Nat.lt_of_le_of_lt (Liquidity.tokSumOK_holder hk) hb

theorem tokSumOK_run {name : Asset → String} (t : Nat) (ops : List Op) (w : World) (hv : ValidRun name w ops)
    (hk : TokSumOK w t) : TokSumOK (run name w ops) t :=
  validRun_preserves (P := fun w => TokSumOK w t) (fun _ _ _ _ hv h hk => Liquidity.tokSumOK_step hk hv.fresh h)
    ops w hv hk

/-- along a valid history every balance of a token that starts conserved and below 2^128 stays below 2^128 -/
theorem token_bal_lt_W_run {name : Asset → String} (t : Nat) (ops : List Op) (w : World) (hv : ValidRun name w ops)
    (hk : TokSumOK w t) (hb : supply w t < W) (z : Nat) : bal (run name w ops) (.token t) z < W :=
  token_bal_lt_W (tokSumOK_run t ops w hv hk) (supply_lt_W_run t ops w hb) z

/-! ## 2(b). native coins in circulation stay below 2^128 -/

/-- the total of denom `d` in circulation is below 2^128: every duplicate-free list of accounts holds less -/
def NativeBound (w : World) (d : Nat) : Prop := ∀ L : List Nat, L.Nodup → sumBal w (.native d) L < W

/-- a move of `amt` from `src` to `dst` keeps every duplicate-free partial sum under a bound that held for
every duplicate-free partial sum before (extend the list by `src` when it is missing) -/
theorem sum_move_le {f g : Nat → Nat} {src dst amt B : Nat}
    (hg : ∀ z, g z = if z = dst then (if z = src then f z - amt else f z) + amt
                     else if z = src then f z - amt else f z)
    (hle : amt ≤ f src)
    (h : ∀ L : List Nat, L.Nodup → (L.map f).sum ≤ B) : ∀ L : List Nat, L.Nodup → (L.map g).sum ≤ B := by
  intro L hL
  have H := h L hL
  have e1 := Liquidity.sum_pointUpd (f := f) (g := fun z => if z = src then f z - amt else f z) (c := src)
    (fun z hz => by simp only [if_neg hz]) L hL
  have e2 := Liquidity.sum_pointUpd (f := fun z => if z = src then f z - amt else f z) (g := g) (c := dst)
    (fun z hz => by rw [hg, if_neg hz]) L hL
  rw [hg dst] at e2
  simp only [if_true] at e1 e2
  by_cases hsL : src ∈ L
  · simp only [hsL, if_true] at e1
    by_cases hdL : dst ∈ L
    · simp only [hdL, if_true] at e2; omega
    · simp only [hdL, if_false] at e2; omega
  · simp only [hsL, if_false] at e1
    have H' := h (src :: L) (List.nodup_cons.mpr ⟨hsL, hL⟩)
    simp only [List.map_cons, List.sum_cons] at H'
    by_cases hdL : dst ∈ L
    · simp only [hdL, if_true] at e2; omega
    · simp only [hdL, if_false] at e2; omega

theorem nativeBound_congr {w w' : World} {d : Nat} (hb : ∀ z, bal w' (.native d) z = bal w (.native d) z)
    (h : NativeBound w d) : NativeBound w' d := by
  intro L hL
  have e : sumBal w' (.native d) L = sumBal w (.native d) L := by
    unfold sumBal
    exact C07.sum_congr (fun z _ => hb z)
  rw [e]
  exact h L hL

theorem nativeBound_of_bank {w w' : World} {d : Nat} (hb : w'.bank = w.bank) (h : NativeBound w d) :
    NativeBound w' d :=
  nativeBound_congr (fun z => by simp [bal, hb]) h

theorem nativeBound_bankMove1 {w w' : World} {src dst d0 amt d : Nat} (hm : bankMove1 w src dst d0 amt = .ok w')
    (h : NativeBound w d) : NativeBound w' d := by
  by_cases hd : d = d0
  · subst hd
    intro L hL
    have hW := W_pos
    have key := sum_move_le (f := bal w (.native d)) (g := bal w' (.native d)) (src := src) (dst := dst)
      (amt := amt) (B := W - 1)
      (fun z => by rw [bal_bankMove1 hm, if_pos rfl]) (bankMove1_ok hm).1
      (fun L hL => by have := h L hL; unfold sumBal at this; omega) L hL
    unfold sumBal
    omega
  · exact nativeBound_congr (fun z => by rw [bal_bankMove1 hm, if_neg (by simpa using hd)]) h

theorem moves_nativeBound {F : Prop} {S Q : Nat → Prop} {w w' : World} (h : C07.Moves F S Q w w') (d : Nat) :
    NativeBound w d → NativeBound w' d := by
  induction h with
  | refl w => exact fun h => h
  | trans _ _ ih1 ih2 => exact fun h => ih2 (ih1 h)
  | bank _ _ h => exact nativeBound_bankMove1 h
  | xfer _ _ h => exact nativeBound_of_bank (tokTransfer_same h).2
  | xferFrom _ _ h => exact nativeBound_of_bank (tokTransferFrom_same h).2
  | mint _ _ h => exact nativeBound_of_bank (tokMint_same h).2
  | burn _ _ h => exact nativeBound_of_bank (tokBurn_same h).2
  | incAllow _ h => exact nativeBound_of_bank (tokIncAllow_same h).2
  | burnFrom _ _ h => exact nativeBound_of_bank (tokBurnFrom_same h).2
  | decAllow _ h => exact nativeBound_of_bank (tokDecAllow_same h).2
  | quiet hb _ => exact nativeBound_of_bank hb

/-- every operation preserves the bound on the circulation of every denom (no assumption on the operation) -/
theorem nativeBound_step {name : Asset → String} {w w' : World} {op : Op} {out : Out}
    (h : exec name w op = .ok (w', out)) (d : Nat) (hb : NativeBound w d) : NativeBound w' d :=
  moves_nativeBound (C07.exec_moves h) d hb

/-- … hence along every history, valid or not -/
theorem nativeBound_run {name : Asset → String} (d : Nat) (ops : List Op) (w : World) (hb : NativeBound w d) :
    NativeBound (run name w ops) d :=
  run_preserves (P := fun w => NativeBound w d) (fun _ _ _ _ h hb => nativeBound_step h d hb) ops w hb

theorem native_bal_lt_W {w : World} {d : Nat} (hb : NativeBound w d) (z : Nat) : bal w (.native d) z < W := by
  have := hb [z] (List.nodup_cons.mpr ⟨List.not_mem_nil, List.nodup_nil⟩)
  simpa [sumBal] using this

theorem native_bal_lt_W_run {name : Asset → String} (d : Nat) (ops : List Op) (w : World) (hb : NativeBound w d)
    (z : Nat) : bal (run name w ops) (.native d) z < W :=
  native_bal_lt_W (nativeBound_run d ops w hb) z

/-! ## 2(c). the payoff: liveness of withdrawals with bounds at genesis only -/

/-- what the ledger guarantees of an asset: a denom circulates less than 2^128; a cw20 token is conserved
(`TokSumOK`) with a supply below 2^128 -/
def AssetBound (w : World) : Asset → Prop
  | .native d => NativeBound w d
  | .token t => TokSumOK w t ∧ supply w t < W

theorem assetBound_bal {w : World} {a : Asset} (h : AssetBound w a) (z : Nat) : bal w a z < W := by
  cases a with
  | native d => exact native_bal_lt_W h z
  | token t => exact token_bal_lt_W h.1 h.2 z

theorem assetBound_step {name : Asset → String} {w w' : World} {op : Op} {out : Out} (hf : FreshOK w op)
    (h : exec name w op = .ok (w', out)) {a : Asset} (hb : AssetBound w a) : AssetBound w' a := by
  cases a with
  | native d => exact nativeBound_step h d hb
  | token t => exact ⟨Liquidity.tokSumOK_step hb.1 hf h, supply_lt_W_step h t hb.2⟩

theorem assetBound_run {name : Asset → String} (a : Asset) (ops : List Op) (w : World) (hv : ValidRun name w ops)
    (hb : AssetBound w a) : AssetBound (run name w ops) a :=
  validRun_preserves (P := fun w => AssetBound w a) (fun _ _ _ _ hv h hb => assetBound_step hv.fresh h hb)
    ops w hv hb

/-- every balance of a bounded asset is below 2^128 after any valid history -/
theorem bal_lt_W_run {name : Asset → String} (a : Asset) (ops : List Op) (w : World) (hv : ValidRun name w ops)
    (hb : AssetBound w a) (z : Nat) : bal (run name w ops) a z < W :=
  assetBound_bal (assetBound_run a ops w hv hb) z

theorem withdraw_live_reachable {name : Asset → String} {p : Nat} {a0 a1 : Asset} {lp : Nat}
    (ops : List Op) (w : World) (hinv : PairInv w p a0 a1 lp) (hv : ValidRun name w ops)
    {h a : Nat} (hhp : h ≠ p) (hvalid : w.badAddr h = false) (ha1 : 1 ≤ a)
    (hab : a ≤ bal (run name w ops) (.token lp) h)
    (hS0 : supply w lp < W) (hb0 : AssetBound w a0) (hb1 : AssetBound w a1)
    (hent0 : (bal (run name w ops) a0 p + 2 * E) * supply (run name w ops) lp ≤ bal (run name w ops) a0 p * a * E)
    (hent1 : (bal (run name w ops) a1 p + 2 * E) * supply (run name w ops) lp ≤ bal (run name w ops) a1 p * a * E) :
    ∃ w' x0 x1, exec name (run name w ops) (.tokSend lp h p a .withdraw) = .ok (w', .withdraw x0 x1) ∧
      2 ≤ x0 ∧ 2 ≤ x1 :=
  C03G.withdraw_live_after_history ops w hinv hv hhp hvalid ha1 hab
    (bal_lt_W_run a0 ops w hv hb0 p) (bal_lt_W_run a1 ops w hv hb1 p) (supply_lt_W_run lp ops w hS0) hent0 hent1

/-- the same from genesis: the bounds are those of the world in which the pair is created (the LP token starts
with supply 0, so it needs no hypothesis) -/
theorem withdraw_live_reachable_from_creation {name : Asset → String} {w w1 : World} {s : Nat}
    {f : List (Nat × Nat)} {a0 a1 : Asset} {req : Requirements} {c ld : Option Nat} {np nl : Nat} {out : Out}
    (hv : ValidOp w (.factory s f (.createPair a0 a1 req c ld np nl))) (hn : NewAddrs w np nl)
    (hc : exec name w (.factory s f (.createPair a0 a1 req c ld np nl)) = .ok (w1, out))
    (ops : List Op) (hvr : ValidRun name w1 ops)
    {h a : Nat} (hhp : h ≠ np) (hvalid : w.badAddr h = false) (ha1 : 1 ≤ a)
    (hab : a ≤ bal (run name w1 ops) (.token nl) h)
    (hb0 : AssetBound w a0) (hb1 : AssetBound w a1)
    (hent0 : (bal (run name w1 ops) a0 np + 2 * E) * supply (run name w1 ops) nl ≤ bal (run name w1 ops) a0 np * a * E)
    (hent1 : (bal (run name w1 ops) a1 np + 2 * E) * supply (run name w1 ops) nl ≤ bal (run name w1 ops) a1 np * a * E) :
    ∃ w' x0 x1, exec name (run name w1 ops) (.tokSend nl h np a .withdraw) = .ok (w', .withdraw x0 x1) ∧
      2 ≤ x0 ∧ 2 ≤ x1 := by
  obtain ⟨hinv, hs0⟩ := C03G.created_pair_inv hv hn hc
  exact withdraw_live_reachable ops w1 hinv hvr hhp (by rw [RegOKP.badAddr_exec hc]; exact hvalid) ha1 hab (by rw [hs0]; exact W_pos)
    (assetBound_step hv.fresh hc hb0) (assetBound_step hv.fresh hc hb1) hent0 hent1

end Halo.Bounds
