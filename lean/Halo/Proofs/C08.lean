/-
C08 — proofs: range of results, rounding direction and magnitude, limb-level facts.
Core Lean only (`omega`).
-/
import Halo.Proofs.Basic

namespace Halo.C08
open Halo

/-- floor division: the exact quotient lies in `[n / d, n / d + 1)` -/
theorem div_round (n : Nat) {d : Nat} (hd : d ≠ 0) :
    n / d * d ≤ n ∧ n < (n / d + 1) * d := by
  have h1 := Nat.div_add_mod n d
  have h2 := Nat.mod_lt n (Nat.pos_of_ne_zero hd)
  rw [Nat.add_mul, Nat.one_mul, Nat.mul_comm (n / d) d]
  omega

theorem div_lt_U {n : Nat} (d : Nat) (h : n < U) : n / d < U :=
  Nat.lt_of_le_of_lt (Nat.div_le_self n d) h

theorem results_in_range {a b r : Nat} (ha : a < U) (_hb : b < U) :
    (Dec.add a b = .ok r → r < U) ∧ (Dec.sub a b = .ok r → r < U) ∧ (Dec.mul a b = .ok r → r < U) ∧
    (Dec.div a b = .ok r → r < U) ∧ (Dec.fromRatio a b = .ok r → r < U) ∧ (Dec.fromUint a = .ok r → r < U) ∧
    (Uint.mul a b = .ok r → r < U) ∧ (Uint.mulDec a b = .ok r → r < U) ∧ (Uint.divDec a b = .ok r → r < U) := by
  refine ⟨?_, ?_, ?_, ?_, ?_, ?_, ?_, ?_, ?_⟩
  · intro h; obtain ⟨h1, rfl⟩ := Dec.add_ok.mp h; exact h1
  · intro h; obtain ⟨_, rfl⟩ := Dec.sub_ok.mp h
    exact Nat.lt_of_le_of_lt (Nat.sub_le a b) ha
  · intro h; obtain ⟨h1, rfl⟩ := Dec.mul_ok.mp h; exact div_lt_U _ h1
  · intro h; obtain ⟨_, h1, rfl⟩ := Dec.div_ok.mp h; exact div_lt_U _ h1
  · intro h; obtain ⟨_, h1, rfl⟩ := Dec.fromRatio_ok.mp h; exact div_lt_U _ h1
  · intro h; obtain ⟨h1, rfl⟩ := Dec.fromUint_ok.mp h; exact h1
  · intro h; obtain ⟨h1, rfl⟩ := Uint.mul_ok.mp h; exact h1
  · intro h; obtain ⟨h1, rfl⟩ := Uint.mulDec_ok.mp h; exact div_lt_U _ h1
  · intro h; obtain ⟨_, h1, rfl⟩ := Uint.divDec_ok.mp h; exact div_lt_U _ h1

theorem mulRatio_in_range {u n d r : Nat} (h : Uint.mulRatio u n d = .ok r) : r < U := by
  obtain ⟨_, h1, rfl⟩ := Uint.mulRatio_ok.mp h
  exact div_lt_U _ h1

theorem dec_mul_rounding {a b r : Nat} (h : Dec.mul a b = .ok r) :
    r * E ≤ a * b ∧ a * b < (r + 1) * E := by
  obtain ⟨_, rfl⟩ := Dec.mul_ok.mp h
  exact div_round _ (Nat.ne_of_gt E_pos)

theorem dec_div_rounding {a b r : Nat} (h : Dec.div a b = .ok r) :
    r * b ≤ a * E ∧ a * E < (r + 1) * b := by
  obtain ⟨hb, _, rfl⟩ := Dec.div_ok.mp h
  exact div_round _ hb

theorem dec_fromRatio_rounding {n d r : Nat} (h : Dec.fromRatio n d = .ok r) :
    r * d ≤ n * E ∧ n * E < (r + 1) * d := by
  obtain ⟨hd, _, rfl⟩ := Dec.fromRatio_ok.mp h
  exact div_round _ hd

theorem uint_mulRatio_rounding {u n d r : Nat} (h : Uint.mulRatio u n d = .ok r) :
    r * d ≤ u * n ∧ u * n < (r + 1) * d := by
  obtain ⟨hd, _, rfl⟩ := Uint.mulRatio_ok.mp h
  exact div_round _ hd

theorem uint_mulDec_rounding {u d r : Nat} (h : Uint.mulDec u d = .ok r) :
    r * E ≤ u * d ∧ u * d < (r + 1) * E := by
  obtain ⟨_, rfl⟩ := Uint.mulDec_ok.mp h
  exact div_round _ (Nat.ne_of_gt E_pos)

theorem uint_divDec_rounding {u d r : Nat} (h : Uint.divDec u d = .ok r) :
    r * d ≤ u * E ∧ u * E < (r + 1) * d := by
  obtain ⟨hd, _, rfl⟩ := Uint.divDec_ok.mp h
  exact div_round _ hd

theorem ofU128_wf {a : Nat} (h : a < W) : (Limbs.ofU128 a).wf := by
  unfold Limbs.ofU128 Limbs.splitU128 Limbs.wf
  have hL : L = 18446744073709551616 := by decide
  have hW : W = 18446744073709551616 * 18446744073709551616 := by decide
  rw [hW] at h
  simp only [hL]
  omega

theorem limbs_order {x y : Limbs} (hx : x.wf) (hy : y.wf) :
    x.value < y.value ↔
      (x.l3 < y.l3 ∨ (x.l3 = y.l3 ∧ (x.l2 < y.l2 ∨ (x.l2 = y.l2 ∧ (x.l1 < y.l1 ∨ (x.l1 = y.l1 ∧ x.l0 < y.l0)))))) := by
  unfold Limbs.wf at hx hy
  unfold Limbs.value
  have hL : L = 18446744073709551616 := by decide
  simp only [hL] at hx hy ⊢
  omega

end Halo.C08
