/-
Proofs for the tolerance-monotonicity statement of C15 (`Halo/Props/C15.lean`).
-/
import Halo.Proofs.C15

namespace Halo.C15
open Halo

/-- a provision accepted at tolerance `t` is accepted at every larger tolerance up to 100% -/
theorem slippage_mono_tolerance {t t' d0 d1 r0 r1 : Nat}
    (h : assertSlippage (some t) d0 d1 r0 r1 = .ok ()) (htt : t ≤ t') (ht' : t' ≤ E) :
    assertSlippage (some t') d0 d1 r0 r1 = .ok () := by
  unfold assertSlippage at h ⊢
  simp only at h ⊢
  split at h
  · simp at h
  · simp only [bind_ok_iff, Dec.sub_ok, calcPriceDrop_ok, calcSlippageTolerance_ok] at h
    obtain ⟨w, ⟨htE, rfl⟩, a, ⟨hd1, hd0U, hp, rfl⟩, b, ⟨hr1, hr0U, rfl⟩, h⟩ := h
    split at h
    · simp at h
    · rename_i hab
      simp only [bind_ok_iff, calcPriceDrop_ok, calcSlippageTolerance_ok] at h
      obtain ⟨a', ⟨hd0, hd1U, hp', rfl⟩, b', ⟨hr0, hr1U, rfl⟩, h⟩ := h
      split at h
      · simp at h
      · rename_i hab'
        have hw : E - t' ≤ E - t := Nat.sub_le_sub_left htt E
        have m1 : d0 * E / d1 * (E - t') ≤ d0 * E / d1 * (E - t) := Nat.mul_le_mul_left _ hw
        have m2 : d1 * E / d0 * (E - t') ≤ d1 * E / d0 * (E - t) := Nat.mul_le_mul_left _ hw
        have q1 : d0 * E / d1 * (E - t') / E ≤ d0 * E / d1 * (E - t) / E := Nat.div_le_div_right m1
        have q2 : d1 * E / d0 * (E - t') / E ≤ d1 * E / d0 * (E - t) / E := Nat.div_le_div_right m2
        rw [if_neg (Nat.not_lt.2 ht')]
        simp only [bind_ok_iff, Dec.sub_ok, calcPriceDrop_ok, calcSlippageTolerance_ok]
        refine ⟨_, ⟨ht', rfl⟩, _, ⟨hd1, hd0U, Nat.lt_of_le_of_lt m1 hp, rfl⟩, _, ⟨hr1, hr0U, rfl⟩, ?_⟩
        rw [if_neg (by omega)]
        simp only [bind_ok_iff, calcPriceDrop_ok, calcSlippageTolerance_ok]
        refine ⟨_, ⟨hd0, hd1U, Nat.lt_of_le_of_lt m2 hp', rfl⟩, _, ⟨hr0, hr1U, rfl⟩, ?_⟩
        rw [if_neg (by omega)]
end Halo.C15
