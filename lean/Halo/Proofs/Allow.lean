/-
Allowance entries are created only by `IncreaseAllowance`.

`AllowSub w w'`: every allowance entry `(token, owner, spender)` that is absent in `w` is absent in `w'`.
Every handler except the cw20 `IncreaseAllowance` satisfies it (`TransferFrom` / `SendFrom` / `BurnFrom` lower an
existing entry, `DecreaseAllowance` lowers or removes one, a freshly instantiated LP token has none), hence
`exec_allowSub`: an operation creates no allowance entry owned by anybody but its actor.  In particular an account
that never submits an operation (a pair contract, an LP token's own address) never has an allowance entry, so no
third party can move its tokens with `TransferFrom` / `SendFrom` / `BurnFrom` (`PairInv.noAllow`).
Core Lean only.
-/
import Halo.Inv
import Halo.Proofs.C07

namespace Halo.Allow
open Halo Halo.C07

/-- no allowance entry appears -/
def AllowSub (w w' : World) : Prop := ∀ t o s, allowOf w t o s = none → allowOf w' t o s = none

theorem AllowSub.refl (w : World) : AllowSub w w := fun _ _ _ h => h
theorem AllowSub.trans {a b c : World} (h1 : AllowSub a b) (h2 : AllowSub b c) : AllowSub a c :=
  fun t o s h => h2 t o s (h1 t o s h)

theorem allowSub_of_eq {w w' : World} (h : ∀ t o s, allowOf w' t o s = allowOf w t o s) : AllowSub w w' :=
  fun t o s e => by rw [h]; exact e

theorem allowSub_of_tok {w w' : World} (h : w'.tok = w.tok) : AllowSub w w' :=
  allowSub_of_eq (allowOf_of_tok_eq h)

theorem Ledger.allowSub {w w' : World} (h : Ledger w w') : AllowSub w w' := allowSub_of_tok h.tok

theorem allowSub_setTok {w : World} {t : Nat} {T : Token} (T' : Token) (hT : w.tok t = some T)
    (hA : ∀ o s, T.allow o s = none → T'.allow o s = none) : AllowSub w (setTok w t T') := by
  intro u o s h
  by_cases hu : u = t
  · subst hu
    simp only [allowOf, hT] at h
    simp only [allowOf, setTok, if_pos]
    exact hA o s h
  · simpa [allowOf, setTok, hu] using h

/-! ### primitives -/

theorem allowSub_bankSend {w w' : World} {s d : Nat} {cs : List (Nat × Nat)} (h : bankSend w s d cs = .ok w') :
    AllowSub w w' := allowSub_of_tok (bankSend_same h).2

theorem allowSub_attach {w w' : World} {s d : Nat} {cs : List (Nat × Nat)} (h : attach w s d cs = .ok w') :
    AllowSub w w' := allowSub_of_tok (attach_same h).2

theorem allowSub_tokTransfer {w w' : World} {t src dst amt : Nat} (h : tokTransfer w t src dst amt = .ok w') :
    AllowSub w w' := allowSub_of_eq (allowOf_tokTransfer h)

theorem allowSub_tokMint {w w' : World} {t sd dst amt : Nat} (h : tokMint w t sd dst amt = .ok w') :
    AllowSub w w' := allowSub_of_eq (allowOf_tokMint h)

theorem allowSub_tokBurn {w w' : World} {t sd amt : Nat} (h : tokBurn w t sd amt = .ok w') :
    AllowSub w w' := allowSub_of_eq (allowOf_tokBurn h)

theorem allowSub_tokTransferFrom {w w' : World} {t sp owner dst amt : Nat}
    (h : tokTransferFrom w t sp owner dst amt = .ok w') : AllowSub w w' := by
  obtain ⟨T, al, hT, hal, _, _, rfl⟩ := tokTransferFrom_ok h
  refine allowSub_setTok _ hT (fun o s e => ?_)
  by_cases hc : o = owner ∧ s = sp
  · obtain ⟨rfl, rfl⟩ := hc
    rw [hal] at e
    cases e
  · simp only [if_neg hc]
    exact e

theorem allowSub_tokBurnFrom {w w' : World} {t sp owner amt : Nat}
    (h : tokBurnFrom w t sp owner amt = .ok w') : AllowSub w w' := by
  obtain ⟨T, al, hT, hal, _, _, _, rfl⟩ := tokBurnFrom_ok h
  refine allowSub_setTok _ hT (fun o s e => ?_)
  by_cases hc : o = owner ∧ s = sp
  · obtain ⟨rfl, rfl⟩ := hc
    rw [hal] at e
    cases e
  · simp only [if_neg hc]
    exact e

theorem allowSub_tokDecAllow {w w' : World} {t owner sp amt : Nat}
    (h : tokDecAllow w t owner sp amt = .ok w') : AllowSub w w' := by
  obtain ⟨T, al, hT, _, hal, rfl⟩ := tokDecAllow_ok h
  refine allowSub_setTok _ hT (fun o s e => ?_)
  by_cases hc : o = owner ∧ s = sp
  · obtain ⟨rfl, rfl⟩ := hc
    rw [hal] at e
    cases e
  · simp only [if_neg hc]
    exact e

theorem allowSub_payout {w w' : World} {src : Nat} {a : Asset} {dst amt : Nat} (h : payout w src a dst amt = .ok w') :
    AllowSub w w' := by
  cases a with
  | native d => exact allowSub_bankSend h
  | token t => exact allowSub_tokTransfer h

/-! ### pair -/

theorem allowSub_pairSwap {w w' : World} {p : Nat} {P : PairSt} {funds : List (Nat × Nat)} {trader : Nat}
    {offer : Asset} {amt : Nat} {b ms tt : Option Nat} {o : SwapOut}
    (h : pairSwap w p P funds trader offer amt b ms tt = .ok (w', o)) : AllowSub w w' := by
  obtain ⟨_, _, _, x, y, ask, od, ad, n, s, k, _, _, _, _, hw⟩ := C02.pairSwap_ok h
  rcases hw with ⟨_, rfl⟩ | ⟨_, hp'⟩
  · exact AllowSub.refl _
  · exact allowSub_payout hp'

theorem allowSub_pairWithdraw {w w' : World} {p : Nat} {P : PairSt} {sender amount : Nat} {x : Nat × Nat}
    (h : pairWithdraw w p P sender amount = .ok (w', x)) : AllowSub w w' := by
  obtain ⟨x0, x1, w1, w2, h1, h2, h3⟩ := pairWithdraw_inv h
  exact ((allowSub_payout h1).trans (allowSub_payout h2)).trans (allowSub_tokBurn h3)

theorem allowSub_pairProvide {w w' : World} {p : Nat} {P : PairSt} {sender : Nat} {funds : List (Nat × Nat)}
    {as0 as1 : Asset} {am0 am1 : Nat} {tol receiver : Option Nat} {sh : Nat}
    (h : pairProvide w p P sender funds as0 am0 as1 am1 tol receiver = .ok (w', sh)) : AllowSub w w' := by
  obtain ⟨d0, d1, w1, w2, w3, h1, h2, h3, h4⟩ := pairProvide_inv h
  have k1 : AllowSub w w1 := by
    split at h1
    · exact allowSub_tokTransferFrom h1
    · simp only [pure_ok_iff] at h1; subst h1; exact .refl _
  have k2 : AllowSub w1 w2 := by
    split at h2
    · exact allowSub_tokTransferFrom h2
    · simp only [pure_ok_iff] at h2; subst h2; exact .refl _
  have k3 : AllowSub w2 w3 := by
    split at h3
    · exact allowSub_tokMint h3
    · simp only [pure_ok_iff] at h3; subst h3; exact .refl _
  exact ((k1.trans k2).trans k3).trans (allowSub_tokMint h4)

theorem allowSub_pairReceive {w w' : World} {p t from_ amount : Nat} {hk : Hook} {out : Out}
    (h : pairReceive w p t from_ amount hk = .ok (w', out)) : AllowSub w w' := by
  cases hk with
  | swap offer amt b ms to =>
    obtain ⟨P, _, _, _, _, w1, o, hs, he⟩ := C14.pairReceive_swap h
    simp only [Prod.mk.injEq] at he
    obtain ⟨rfl, _⟩ := he
    exact allowSub_pairSwap hs
  | withdraw =>
    obtain ⟨P, hP, _, w1, x0, x1, hs, he⟩ := C14.pairReceive_withdraw h
    simp only [Prod.mk.injEq] at he
    obtain ⟨rfl, _⟩ := he
    exact allowSub_pairWithdraw hs
  | routerOps ops mn to => exact absurd h C14.pairReceive_routerOps
  | garbage => exact absurd h C14.pairReceive_garbage

theorem allowSub_pairExec {w w' : World} {s p : Nat} {funds : List (Nat × Nat)} {m : PairMsg} {out : Out}
    (h : pairExec w s p funds m = .ok (w', out)) : AllowSub w w' := by
  cases m with
  | provide as0 am0 as1 am1 tol rcv =>
    obtain ⟨P, w0, w1, sh, hP, h0, h1, he⟩ := C14.pairExec_provide h
    simp only [Prod.mk.injEq] at he
    obtain ⟨rfl, _⟩ := he
    exact (allowSub_attach h0).trans (allowSub_pairProvide h1)
  | swap offer amt b ms to =>
    cases offer with
    | token t => exact absurd h C14.pairExec_swap_token
    | native d =>
      obtain ⟨P, w0, w1, o, _, h0, h1, he⟩ := C14.pairExec_swap_native h
      simp only [Prod.mk.injEq] at he
      obtain ⟨rfl, _⟩ := he
      exact (allowSub_attach h0).trans (allowSub_pairSwap h1)
  | receive from_ amount hk =>
    obtain ⟨P, w0, _, h0, h1⟩ := C14.pairExec_receive h
    exact (allowSub_attach h0).trans (allowSub_pairReceive h1)
  | updateDecimals d da db =>
    obtain ⟨P, w0, w1, _, h0, h1, he⟩ := C14.pairExec_updateDecimals h
    simp only [Prod.mk.injEq] at he
    obtain ⟨rfl, _⟩ := he
    exact (allowSub_attach h0).trans (Ledger.allowSub (pairUpdateDecimals_ledger h1).1)

theorem allowSub_tokSendPair {w w' : World} {t sender p amt : Nat} {hk : Hook} {out : Out}
    (h : tokSendPair w t sender p amt hk = .ok (w', out)) : AllowSub w w' := by
  unfold tokSendPair at h
  simp only [bind_ok_iff] at h
  obtain ⟨w1, h1, h2⟩ := h
  exact (allowSub_tokTransfer h1).trans (allowSub_pairReceive h2)

/-! ### router -/

theorem allowSub_routerHop {w w' : World} {sender : Nat} {offer ask : Asset} {to : Option Nat}
    (h : routerHop w sender offer ask to = .ok w') : AllowSub w w' := by
  unfold routerHop at h
  split at h
  · cases h
  split at h
  · cases h
  simp only [bind_ok_iff] at h
  obtain ⟨amount, _, h⟩ := h
  cases offer with
  | native d =>
    simp only [bind_ok_iff, pure_ok_iff] at h
    obtain ⟨⟨w1, o⟩, h1, rfl⟩ := h
    exact allowSub_pairExec h1
  | token t =>
    simp only [bind_ok_iff, pure_ok_iff] at h
    obtain ⟨⟨w1, o⟩, h1, rfl⟩ := h
    exact allowSub_tokSendPair h1

theorem allowSub_routerHops {to : Nat} : ∀ (ops : List (Asset × Asset)) {w w' : World},
    routerHops w to ops = .ok w' → AllowSub w w'
  | [], w, w', h => by
    simp only [routerHops] at h; injection h with h; subst h; exact .refl _
  | [(o, a)], w, w', h => by
    simp only [routerHops] at h
    exact allowSub_routerHop h
  | (o, a) :: b :: rest, w, w', h => by
    simp only [routerHops, bind_ok_iff] at h
    obtain ⟨w1, h1, h2⟩ := h
    exact (allowSub_routerHop h1).trans (allowSub_routerHops (b :: rest) h2)

theorem allowSub_routerSwapOps {name : Asset → String} {w w' : World} {sender : Nat} {ops : List (Asset × Asset)}
    {mn to : Option Nat} (h : routerSwapOps name w sender ops mn to = .ok w') : AllowSub w w' := by
  unfold routerSwapOps at h
  split at h
  · cases h
  simp only [bind_ok_iff] at h
  obtain ⟨_, _, h⟩ := h
  split at h
  · exact allowSub_routerHops _ h
  · simp only [bind_ok_iff, pure_ok_iff] at h
    obtain ⟨_, _, w1, h1, _, _, rfl⟩ := h
    exact allowSub_routerHops _ h1

theorem allowSub_routerReceive {name : Asset → String} {w w' : World} {from_ : Nat} {hk : Hook}
    (h : routerReceive name w from_ hk = .ok w') : AllowSub w w' := by
  obtain ⟨ops, mn, to, rfl, _, _, h⟩ := routerReceive_ok h
  exact allowSub_routerSwapOps h

theorem allowSub_routerExec {name : Asset → String} {w w' : World} {sender : Nat} {funds : List (Nat × Nat)}
    {m : RouterMsg} (h : routerExec name w sender funds m = .ok w') : AllowSub w w' := by
  unfold routerExec at h
  simp only [bind_ok_iff] at h
  obtain ⟨w0, h0, h⟩ := h
  refine (allowSub_attach h0).trans ?_
  cases m with
  | swapOps ops mn to =>
    simp only [bind_ok_iff] at h
    obtain ⟨_, _, h⟩ := h
    exact allowSub_routerSwapOps h
  | swapOp o a to =>
    simp only [bind_ok_iff] at h
    obtain ⟨_, _, h⟩ := h
    exact allowSub_routerHop h
  | assertMin a prev mn rcv =>
    simp only [bind_ok_iff, pure_ok_iff] at h
    obtain ⟨_, _, _, _, rfl⟩ := h
    exact .refl _
  | receive from_ amount hk => exact allowSub_routerReceive h

theorem allowSub_tokSend {name : Asset → String} {w w' : World} {t s d amt : Nat} {hk : Hook} {out : Out}
    (h : tokSend name w t s d amt hk = .ok (w', out)) : AllowSub w w' := by
  unfold tokSend at h
  split at h
  · exact allowSub_tokSendPair h
  · split at h
    · simp only [bind_ok_iff, pure_ok_iff, Prod.mk.injEq] at h
      obtain ⟨w1, h1, w2, h2, rfl, _⟩ := h
      exact (allowSub_tokTransfer h1).trans (allowSub_routerReceive h2)
    · cases h

theorem allowSub_tokSendFrom {name : Asset → String} {w w' : World} {t sp o d amt : Nat} {hk : Hook} {out : Out}
    (h : tokSendFrom name w t sp o d amt hk = .ok (w', out)) : AllowSub w w' := by
  obtain ⟨w1, h1, ⟨_, h2⟩ | ⟨_, _, _, h2⟩⟩ := tokSendFrom_ok h
  · exact (allowSub_tokTransferFrom h1).trans (allowSub_pairReceive h2)
  · exact (allowSub_tokTransferFrom h1).trans (allowSub_routerReceive h2)

/-! ### factory -/

theorem allowSub_facCreatePair {w w' : World} {sender : Nat} {a0 a1 : Asset} {req : Requirements} {comm : Option Nat}
    {lpDec : Option Nat} {np nl : Nat} (h : facCreatePair w sender a0 a1 req comm lpDec np nl = .ok w') :
    AllowSub w w' := by
  unfold facCreatePair at h
  split at h
  · cases h
  split at h
  · cases h
  have h' : ∃ cb : Bool, (if cb = true then (.error .err : M World) else _) = .ok w' := ⟨_, h⟩
  clear h
  obtain ⟨cb, h⟩ := h'
  split at h
  · cases h
  simp only [bind_ok_iff] at h
  obtain ⟨d0, _, d1, _, h⟩ := h
  split at h
  · cases h
  split at h
  · cases h
  have h' : ∃ cb : Bool, (if cb = true then (.error .err : M World) else _) = .ok w' := ⟨_, h⟩
  clear h
  obtain ⟨cb, h⟩ := h'
  split at h
  · cases h
  injection h with h
  subst h
  intro u o s e
  by_cases hu : u = nl
  · subst hu; simp [allowOf]
  · simpa [allowOf, hu] using e

theorem allowSub_facExec {w w' : World} {s : Nat} {funds : List (Nat × Nat)} {m : FacMsg}
    (h : facExec w s funds m = .ok w') : AllowSub w w' := by
  unfold facExec at h
  simp only [bind_ok_iff] at h
  obtain ⟨w0, h0, h⟩ := h
  refine (allowSub_attach h0).trans ?_
  cases m with
  | updateConfig o tc pc => exact Ledger.allowSub (facUpdateConfig_ledger h)
  | createPair a0 a1 req comm lpDec np nl => exact allowSub_facCreatePair h
  | addDecimals d k => exact Ledger.allowSub (facAddDecimals_ledger h)
  | migratePair p c => exact Ledger.allowSub (facMigratePair_ledger h)

/-! ### every operation -/

/-- every operation but `IncreaseAllowance` creates no allowance entry at all -/
theorem exec_allowSub {name : Asset → String} {w w' : World} {op : Op} {out : Out}
    (h : exec name w op = .ok (w', out)) (hinc : ∀ t o sp a, op ≠ .tokIncAllow t o sp a) : AllowSub w w' := by
  cases op with
  | bankSend s d cs =>
    simp only [exec, bind_ok_iff, pure_ok_iff, Prod.mk.injEq] at h
    obtain ⟨w1, h1, rfl, _⟩ := h
    exact allowSub_bankSend h1
  | tokTransfer t s d a =>
    simp only [exec, bind_ok_iff, pure_ok_iff, Prod.mk.injEq] at h
    obtain ⟨w1, h1, rfl, _⟩ := h
    exact allowSub_tokTransfer h1
  | tokSend t s d a hk => exact allowSub_tokSend h
  | tokIncAllow t o s a => exact absurd rfl (hinc t o s a)
  | tokBurn t s a =>
    simp only [exec, bind_ok_iff, pure_ok_iff, Prod.mk.injEq] at h
    obtain ⟨w1, h1, rfl, _⟩ := h
    exact allowSub_tokBurn h1
  | pair s p f m => exact allowSub_pairExec h
  | router s f m =>
    simp only [exec, bind_ok_iff, pure_ok_iff, Prod.mk.injEq] at h
    obtain ⟨w1, h1, rfl, _⟩ := h
    exact allowSub_routerExec h1
  | factory s f m =>
    simp only [exec, bind_ok_iff, pure_ok_iff, Prod.mk.injEq] at h
    obtain ⟨w1, h1, rfl, _⟩ := h
    exact allowSub_facExec h1
  | tokTransferFrom t sp o d a =>
    simp only [exec, bind_ok_iff, pure_ok_iff, Prod.mk.injEq] at h
    obtain ⟨w1, h1, rfl, _⟩ := h
    exact allowSub_tokTransferFrom h1
  | tokSendFrom t sp o d a hk => exact allowSub_tokSendFrom h
  | tokBurnFrom t sp o a =>
    simp only [exec, bind_ok_iff, pure_ok_iff, Prod.mk.injEq] at h
    obtain ⟨w1, h1, rfl, _⟩ := h
    exact allowSub_tokBurnFrom h1
  | tokDecAllow t o sp a =>
    simp only [exec, bind_ok_iff, pure_ok_iff, Prod.mk.injEq] at h
    obtain ⟨w1, h1, rfl, _⟩ := h
    exact allowSub_tokDecAllow h1

/-- an operation creates no allowance entry owned by anybody but its actor -/
theorem exec_noNewAllow {name : Asset → String} {w w' : World} {op : Op} {out : Out}
    (h : exec name w op = .ok (w', out)) (t o s : Nat) (ho : o ≠ actorOf op) (hn : allowOf w t o s = none) :
    allowOf w' t o s = none := by
  by_cases hinc : ∃ t' o' sp a, op = .tokIncAllow t' o' sp a
  · obtain ⟨t', o', sp, a, rfl⟩ := hinc
    simp only [exec, bind_ok_iff, pure_ok_iff, Prod.mk.injEq] at h
    obtain ⟨w1, h1, rfl, _⟩ := h
    rw [allowOf_tokIncAllow h1 t o s ho]
    exact hn
  · exact exec_allowSub h (fun t' o' sp a e => hinc ⟨t', o', sp, a, e⟩) t o s hn

/-- an account other than the actor that has granted no allowance on any cw20 contract still has granted none -/
theorem noAllow_exec {name : Asset → String} {w w' : World} {op : Op} {out : Out}
    (h : exec name w op = .ok (w', out)) {o : Nat} (ho : o ≠ actorOf op)
    (hn : ∀ t T, w.tok t = some T → ∀ s, T.allow o s = none) :
    ∀ t T', w'.tok t = some T' → ∀ s, T'.allow o s = none := by
  intro t T' hT' s
  have h0 : allowOf w t o s = none := by
    unfold allowOf
    cases hT : w.tok t with
    | none => rfl
    | some T => exact hn t T hT s
  have := exec_noNewAllow h t o s ho h0
  simpa [allowOf, hT'] using this

end Halo.Allow
