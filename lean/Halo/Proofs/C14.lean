/-
C14 — privileged and internal entry points reject every other caller; C09 at world level.
Core Lean only.
-/
import Halo.Proofs.WorldBasic
import Halo.Spec
import Halo.Props.C09

namespace Halo.C14
open Halo

/-- the three configuration fields that handlers read for authorisation / addressing are unchanged -/
structure Keep (w w' : World) : Prop where
  owner : w'.owner = w.owner
  facAddr : w'.facAddr = w.facAddr
  router : w'.router = w.router

theorem Keep.refl (w : World) : Keep w w := ⟨rfl, rfl, rfl⟩
theorem Keep.trans {a b c : World} (h1 : Keep a b) (h2 : Keep b c) : Keep a c :=
  ⟨h2.owner.trans h1.owner, h2.facAddr.trans h1.facAddr, h2.router.trans h1.router⟩
theorem _root_.Halo.Same.keep {w w' : World} (h : Same w w') : Keep w w' := ⟨h.owner, h.facAddr, h.router⟩

/-! ### pair -/

theorem pairSwap_keep {w w' : World} {p : Nat} {P : PairSt} {funds : List (Nat × Nat)} {trader : Nat}
    {offer : Asset} {amt : Nat} {belief ms to : Option Nat} {o : SwapOut}
    (h : pairSwap w p P funds trader offer amt belief ms to = .ok (w', o)) : Keep w w' := by
  unfold pairSwap at h
  simp only [bind_ok_iff] at h
  obtain ⟨_, _, r0, _, r1, _, a2, _, a3, _, _, _, h⟩ := h
  split at h <;> simp only [bind_ok_iff, pure_ok_iff, Prod.mk.injEq] at h
  · obtain ⟨_, rfl, rfl, _⟩ := h; exact Keep.refl _
  · obtain ⟨w1, hw, rfl, _⟩ := h; exact (payout_same hw).keep

theorem pairWithdraw_keep {w w' : World} {p : Nat} {P : PairSt} {sender amount : Nat} {x : Nat × Nat}
    (h : pairWithdraw w p P sender amount = .ok (w', x)) : Keep w w' := by
  unfold pairWithdraw at h
  simp only [bind_ok_iff, pure_ok_iff, Prod.mk.injEq] at h
  obtain ⟨r0, _, r1, _, S, _, ratio, _, x0, _, x1, _, w1, h1, w2, h2, w3, h3, rfl, _⟩ := h
  exact (((payout_same h1).trans (payout_same h2)).trans (tokBurn_same h3).1).keep


theorem pairProvide_keep {w w' : World} {p : Nat} {P : PairSt} {sender : Nat} {funds : List (Nat × Nat)}
    {as0 as1 : Asset} {am0 am1 : Nat} {tol receiver : Option Nat} {sh : Nat}
    (h : pairProvide w p P sender funds as0 am0 as1 am1 tol receiver = .ok (w', sh)) : Keep w w' := by
  unfold pairProvide at h
  simp only [bind_ok_iff] at h
  obtain ⟨_, _, _, _, r0, _, r1, _, d0, _, d1, _, _, _, _, _, _, _, _, _, _, _, _, _, _, _, S, _, share, _, h⟩ := h
  split at h
  · cases h
  simp only [bind_ok_iff, pure_ok_iff, Prod.mk.injEq] at h
  obtain ⟨share', _, w1, h1, w2, h2, w3, h3, _, _, w4, h4, rfl, _⟩ := h
  have k1 : Keep w w1 := by
    split at h1
    · exact (tokTransferFrom_same h1).1.keep
    · simp only [pure_ok_iff] at h1; subst h1; exact Keep.refl _
  have k2 : Keep w1 w2 := by
    split at h2
    · exact (tokTransferFrom_same h2).1.keep
    · simp only [pure_ok_iff] at h2; subst h2; exact Keep.refl _
  have k3 : Keep w2 w3 := by
    split at h3
    · exact (tokMint_same h3).1.keep
    · simp only [pure_ok_iff] at h3; subst h3; exact Keep.refl _
  exact ((k1.trans k2).trans k3).trans (tokMint_same h4).1.keep


theorem pairReceive_swap {w : World} {p t from_ amount : Nat} {offer : Asset} {amt : Nat} {b ms to : Option Nat}
    {r : World × Out} (h : pairReceive w p t from_ amount (.swap offer amt b ms to) = .ok r) :
    ∃ P, w.pair p = some P ∧ amt = amount ∧ (P.a0 = .token t ∨ P.a1 = .token t) ∧ offer = .token t ∧
      ∃ w' o, pairSwap w p P [] from_ offer amt b ms to = .ok (w', o) ∧ r = (w', .swap o) := by
  unfold pairReceive at h
  split at h
  · cases h
  rename_i P hP
  refine ⟨P, hP, ?_⟩
  dsimp only at h
  split at h
  · cases h
  rename_i h1
  simp only [bind_ok_iff] at h
  obtain ⟨_, _, _, _, h⟩ := h
  split at h
  · cases h
  rename_i h2
  split at h
  · cases h
  rename_i h3
  simp only [bind_ok_iff, pure_ok_iff] at h
  obtain ⟨_, _, ⟨w', o⟩, hs, h⟩ := h
  exact ⟨by simpa using h1, Decidable.not_not.mp h2, Decidable.not_not.mp h3, w', o, hs, h.symm⟩

theorem pairReceive_withdraw {w : World} {p t from_ amount : Nat} {r : World × Out}
    (h : pairReceive w p t from_ amount .withdraw = .ok r) :
    ∃ P, w.pair p = some P ∧ t = P.lp ∧
      ∃ w' x0 x1, pairWithdraw w p P from_ amount = .ok (w', x0, x1) ∧ r = (w', .withdraw x0 x1) := by
  unfold pairReceive at h
  split at h
  · cases h
  rename_i P hP
  refine ⟨P, hP, ?_⟩
  dsimp only at h
  split at h
  · cases h
  rename_i h1
  simp only [bind_ok_iff, pure_ok_iff] at h
  obtain ⟨_, _, ⟨w', x0, x1⟩, hs, h⟩ := h
  exact ⟨by simpa using h1, w', x0, x1, hs, h.symm⟩

theorem pairReceive_routerOps {w : World} {p t from_ amount : Nat} {ops : List (Asset × Asset)} {mn to : Option Nat}
    {r : World × Out} : pairReceive w p t from_ amount (.routerOps ops mn to) ≠ .ok r := by
  intro h
  unfold pairReceive at h
  split at h
  · cases h
  · cases h

theorem pairReceive_garbage {w : World} {p t from_ amount : Nat} {r : World × Out} :
    pairReceive w p t from_ amount .garbage ≠ .ok r := by
  intro h
  unfold pairReceive at h
  split at h
  · cases h
  · cases h

theorem pairReceive_keep {w w' : World} {p t from_ amount : Nat} {hk : Hook} {out : Out}
    (h : pairReceive w p t from_ amount hk = .ok (w', out)) : Keep w w' := by
  cases hk with
  | swap offer amt b ms to =>
    obtain ⟨P, _, _, _, _, w1, o, hs, he⟩ := pairReceive_swap h
    simp only [Prod.mk.injEq] at he
    obtain ⟨rfl, _⟩ := he
    exact pairSwap_keep hs
  | withdraw =>
    obtain ⟨P, _, _, w1, x0, x1, hs, he⟩ := pairReceive_withdraw h
    simp only [Prod.mk.injEq] at he
    obtain ⟨rfl, _⟩ := he
    exact pairWithdraw_keep hs
  | routerOps ops mn to => exact absurd h pairReceive_routerOps
  | garbage => exact absurd h pairReceive_garbage

theorem pairUpdateDecimals_ok {w w' : World} {p sender denom da db : Nat}
    (h : pairUpdateDecimals w p sender denom da db = .ok w') :
    (∃ P, w.pair p = some P ∧ sender = P.factory) ∧ Keep w w' := by
  unfold pairUpdateDecimals at h
  split at h
  · cases h
  rename_i P hP
  split at h
  · cases h
  rename_i hs
  injection h with h
  subst h
  exact ⟨⟨P, hP, Decidable.not_not.mp hs⟩, ⟨rfl, rfl, rfl⟩⟩

/-- common prefix of every pair execute: the pair exists and the funds were credited -/
theorem pairExec_updateDecimals {w : World} {s p : Nat} {funds : List (Nat × Nat)} {d da db : Nat} {r : World × Out}
    (h : pairExec w s p funds (.updateDecimals d da db) = .ok r) :
    ∃ P w0 w', w.pair p = some P ∧ attach w s p funds = .ok w0 ∧
      pairUpdateDecimals w0 p s d da db = .ok w' ∧ r = (w', .none) := by
  unfold pairExec at h
  split at h
  · cases h
  rename_i P hP
  simp only [bind_ok_iff, pure_ok_iff] at h
  obtain ⟨w0, h0, w', h1, h2⟩ := h
  exact ⟨P, w0, w', hP, h0, h1, h2.symm⟩

theorem pairExec_receive {w : World} {s p from_ amount : Nat} {funds : List (Nat × Nat)} {hk : Hook} {r : World × Out}
    (h : pairExec w s p funds (.receive from_ amount hk) = .ok r) :
    ∃ P w0, w.pair p = some P ∧ attach w s p funds = .ok w0 ∧ pairReceive w0 p s from_ amount hk = .ok r := by
  unfold pairExec at h
  split at h
  · cases h
  rename_i P hP
  simp only [bind_ok_iff] at h
  obtain ⟨w0, h0, h1⟩ := h
  exact ⟨P, w0, hP, h0, h1⟩

theorem pairExec_swap_native {w : World} {s p d amt : Nat} {funds : List (Nat × Nat)} {b ms to : Option Nat}
    {r : World × Out} (h : pairExec w s p funds (.swap (.native d) amt b ms to) = .ok r) :
    ∃ P w0 w' o, w.pair p = some P ∧ attach w s p funds = .ok w0 ∧
      pairSwap w0 p P funds s (.native d) amt b ms to = .ok (w', o) ∧ r = (w', .swap o) := by
  unfold pairExec at h
  split at h
  · cases h
  rename_i P hP
  simp only [bind_ok_iff, pure_ok_iff] at h
  obtain ⟨w0, h0, _, _, ⟨w', o⟩, h1, h2⟩ := h
  exact ⟨P, w0, w', o, hP, h0, h1, h2.symm⟩

theorem pairExec_swap_token {w : World} {s p t amt : Nat} {funds : List (Nat × Nat)} {b ms to : Option Nat}
    {r : World × Out} : pairExec w s p funds (.swap (.token t) amt b ms to) ≠ .ok r := by
  intro h
  unfold pairExec at h
  split at h
  · cases h
  simp only [bind_ok_iff, reduceCtorEq, and_false, exists_false] at h

theorem pairExec_provide {w : World} {s p : Nat} {funds : List (Nat × Nat)}
    {as0 as1 : Asset} {am0 am1 : Nat} {tol rcv : Option Nat} {r : World × Out}
    (h : pairExec w s p funds (.provide as0 am0 as1 am1 tol rcv) = .ok r) :
    ∃ P w0 w' sh, w.pair p = some P ∧ attach w s p funds = .ok w0 ∧
      pairProvide w0 p P s funds as0 am0 as1 am1 tol rcv = .ok (w', sh) ∧ r = (w', .provide sh) := by
  unfold pairExec at h
  split at h
  · cases h
  rename_i P hP
  simp only [bind_ok_iff, pure_ok_iff] at h
  obtain ⟨w0, h0, ⟨w', sh⟩, h1, h2⟩ := h
  exact ⟨P, w0, w', sh, hP, h0, h1, h2.symm⟩

theorem pairExec_keep {w w' : World} {s p : Nat} {funds : List (Nat × Nat)} {m : PairMsg} {out : Out}
    (h : pairExec w s p funds m = .ok (w', out)) : Keep w w' := by
  cases m with
  | provide as0 am0 as1 am1 tol rcv =>
    obtain ⟨P, w0, w1, sh, _, h0, h1, he⟩ := pairExec_provide h
    simp only [Prod.mk.injEq] at he
    obtain ⟨rfl, _⟩ := he
    exact (attach_same h0).1.keep.trans (pairProvide_keep h1)
  | swap offer amt b ms to =>
    cases offer with
    | token t => exact absurd h pairExec_swap_token
    | native d =>
      obtain ⟨P, w0, w1, o, _, h0, h1, he⟩ := pairExec_swap_native h
      simp only [Prod.mk.injEq] at he
      obtain ⟨rfl, _⟩ := he
      exact (attach_same h0).1.keep.trans (pairSwap_keep h1)
  | receive from_ amount hk =>
    obtain ⟨P, w0, _, h0, h1⟩ := pairExec_receive h
    exact (attach_same h0).1.keep.trans (pairReceive_keep h1)
  | updateDecimals d da db =>
    obtain ⟨P, w0, w1, _, h0, h1, he⟩ := pairExec_updateDecimals h
    simp only [Prod.mk.injEq] at he
    obtain ⟨rfl, _⟩ := he
    exact (attach_same h0).1.keep.trans (pairUpdateDecimals_ok h1).2

theorem tokSendPair_keep {w w' : World} {t sender p amt : Nat} {hk : Hook} {out : Out}
    (h : tokSendPair w t sender p amt hk = .ok (w', out)) : Keep w w' := by
  unfold tokSendPair at h
  simp only [bind_ok_iff] at h
  obtain ⟨w1, h1, h2⟩ := h
  exact (tokTransfer_same h1).1.keep.trans (pairReceive_keep h2)

theorem routerHop_ok {w w' : World} {sender : Nat} {offer ask : Asset} {to : Option Nat}
    (h : routerHop w sender offer ask to = .ok w') : sender = w.router ∧ Keep w w' := by
  unfold routerHop at h
  split at h
  · cases h
  rename_i hs
  refine ⟨Decidable.not_not.mp hs, ?_⟩
  split at h
  · cases h
  simp only [bind_ok_iff] at h
  obtain ⟨amount, _, h⟩ := h
  split at h
  · simp only [bind_ok_iff, pure_ok_iff] at h
    obtain ⟨⟨w1, o⟩, h1, rfl⟩ := h
    exact pairExec_keep h1
  · simp only [bind_ok_iff, pure_ok_iff] at h
    obtain ⟨⟨w1, o⟩, h1, rfl⟩ := h
    exact tokSendPair_keep h1

theorem routerHops_keep {to : Nat} : ∀ (ops : List (Asset × Asset)) {w w' : World},
    routerHops w to ops = .ok w' → Keep w w'
  | [], w, w', h => by
    simp only [routerHops] at h; injection h with h; subst h; exact Keep.refl _
  | [(o, a)], w, w', h => by
    simp only [routerHops] at h; exact (routerHop_ok h).2
  | (o, a) :: b :: rest, w, w', h => by
    simp only [routerHops, bind_ok_iff] at h
    obtain ⟨w1, h1, h2⟩ := h
    exact (routerHop_ok h1).2.trans (routerHops_keep (b :: rest) h2)

theorem routerSwapOps_keep {name : Asset → String} {w w' : World} {sender : Nat} {ops : List (Asset × Asset)}
    {mn to : Option Nat} (h : routerSwapOps name w sender ops mn to = .ok w') : Keep w w' := by
  unfold routerSwapOps at h
  split at h
  · cases h
  simp only [bind_ok_iff] at h
  obtain ⟨_, _, h⟩ := h
  split at h
  · exact routerHops_keep _ h
  · simp only [bind_ok_iff, pure_ok_iff] at h
    obtain ⟨_, _, w1, h1, _, _, rfl⟩ := h
    exact routerHops_keep _ h1

theorem routerReceive_keep {name : Asset → String} {w w' : World} {from_ : Nat} {hk : Hook}
    (h : routerReceive name w from_ hk = .ok w') : Keep w w' := by
  obtain ⟨ops, mn, dst, rfl, _, _, h⟩ := routerReceive_ok h
  exact routerSwapOps_keep h

theorem routerAssertMin_ok {w : World} {sender : Nat} {a : Asset} {prev mn rcv : Nat} {u : Unit}
    (h : routerAssertMin w sender a prev mn rcv = .ok u) : sender = w.router := by
  unfold routerAssertMin at h
  split at h
  · cases h
  rename_i hs
  exact Decidable.not_not.mp hs

theorem routerExec_keep {name : Asset → String} {w w' : World} {sender : Nat} {funds : List (Nat × Nat)}
    {m : RouterMsg} (h : routerExec name w sender funds m = .ok w') : Keep w w' := by
  unfold routerExec at h
  simp only [bind_ok_iff] at h
  obtain ⟨w0, h0, h⟩ := h
  refine (attach_same h0).1.keep.trans ?_
  cases m with
  | swapOps ops mn to =>
    simp only [bind_ok_iff] at h
    obtain ⟨_, _, h⟩ := h
    exact routerSwapOps_keep h
  | swapOp o a to =>
    simp only [bind_ok_iff] at h
    obtain ⟨_, _, h⟩ := h
    exact (routerHop_ok h).2
  | assertMin a prev mn rcv =>
    simp only [bind_ok_iff, pure_ok_iff] at h
    obtain ⟨_, _, _, _, rfl⟩ := h
    exact Keep.refl _
  | receive from_ amount hk => exact routerReceive_keep h

theorem router_hop_only_self {name : Asset → String} {w w' : World} {s : Nat} {funds : List (Nat × Nat)}
    {o a : Asset} {to : Option Nat} (h : routerExec name w s funds (.swapOp o a to) = .ok w') : s = w.router := by
  obtain ⟨w0, h0, _, h⟩ := routerExec_swapOp_ok h
  exact (routerHop_ok h).1.trans (attach_same h0).1.router

theorem router_assert_only_self {name : Asset → String} {w w' : World} {s : Nat} {funds : List (Nat × Nat)}
    {a : Asset} {prev m rcv : Nat} (h : routerExec name w s funds (.assertMin a prev m rcv) = .ok w') :
    s = w.router := by
  obtain ⟨w0, h0, _, h1, _⟩ := routerExec_assertMin_ok h
  exact (routerAssertMin_ok h1).trans (attach_same h0).1.router

theorem facUpdateConfig_ok {w w' : World} {sender : Nat} {o tc pc : Option Nat}
    (h : facUpdateConfig w sender o tc pc = .ok w') :
    sender = w.owner ∧ w'.owner = o.getD w.owner ∧ w'.facAddr = w.facAddr ∧ w'.router = w.router := by
  unfold facUpdateConfig at h
  split at h
  · cases h
  rename_i hs
  split at h
  · cases h
  injection h with h
  subst h
  exact ⟨Decidable.not_not.mp hs, rfl, rfl, rfl⟩

theorem facUpdateConfig_codes {w w' : World} {sender : Nat} {o tc pc : Option Nat}
    (h : facUpdateConfig w sender o tc pc = .ok w') :
    w'.tokenCode = tc.getD w.tokenCode ∧ w'.pairCode = pc.getD w.pairCode := by
  unfold facUpdateConfig at h
  split at h
  · cases h
  split at h
  · cases h
  injection h with h
  subst h
  exact ⟨rfl, rfl⟩

theorem facCreatePair_ok {w w' : World} {sender : Nat} {a0 a1 : Asset} {req : Requirements} {comm : Option Nat}
    {lpDec : Option Nat} {np nl : Nat} (h : facCreatePair w sender a0 a1 req comm lpDec np nl = .ok w') :
    sender = w.owner ∧ Keep w w' := by
  unfold facCreatePair at h
  split at h
  · cases h
  rename_i hs
  refine ⟨Decidable.not_not.mp hs, ?_⟩
  split at h
  · cases h
  have h' : ∃ cb : Bool, (if cb = true then (.error .err : M World) else _) = .ok w' := ⟨_, h⟩
  clear h
  obtain ⟨cb, h⟩ := h'
  split at h
  · cases h
  simp only [bind_ok_iff] at h
  obtain ⟨d0, _, d1, _, h⟩ := h
  split at h
  · cases h
  split at h
  · cases h
  have h' : ∃ cb : Bool, (if cb = true then (.error .err : M World) else _) = .ok w' := ⟨_, h⟩
  clear h
  obtain ⟨cb, h⟩ := h'
  split at h
  · cases h
  injection h with h
  subst h
  exact ⟨rfl, rfl, rfl⟩

theorem facFanOut1_keep {denom decimals : Nat} {w w' : World} {msgs msgs' : List (Nat × Nat × Nat)}
    {e : Bytes × Record} (h : facFanOut1 denom decimals (w, msgs) e = .ok (w', msgs')) : Keep w w' := by
  unfold facFanOut1 at h
  dsimp only at h
  split at h
  · cases h
  injection h with h
  by_cases h0 : e.2.a0 = .native denom <;> by_cases h1 : e.2.a1 = .native denom <;>
    simp only [h0, h1, if_true, if_false, Prod.mk.injEq] at h <;>
    (obtain ⟨rfl, _⟩ := h; exact ⟨rfl, rfl, rfl⟩)

theorem facFanOut_fold_keep {denom decimals : Nat} : ∀ (l : List (Bytes × Record)) {acc acc' : World × List (Nat × Nat × Nat)},
    l.foldlM (facFanOut1 denom decimals) acc = .ok acc' → Keep acc.1 acc'.1
  | [], acc, acc', h => by
    simp only [List.foldlM_nil, pure_ok_iff] at h; subst h; exact Keep.refl _
  | e :: l, (w, msgs), acc', h => by
    simp only [List.foldlM_cons, bind_ok_iff] at h
    obtain ⟨⟨w1, msgs1⟩, h1, h2⟩ := h
    exact (facFanOut1_keep h1).trans (facFanOut_fold_keep l h2)

theorem facFanOutMsgs_keep {denom : Nat} : ∀ (l : List (Nat × Nat × Nat)) {w w' : World},
    facFanOutMsgs denom w l = .ok w' → Keep w w'
  | [], w, w', h => by
    simp only [facFanOutMsgs] at h; injection h with h; subst h; exact Keep.refl _
  | (p, da, db) :: rest, w, w', h => by
    simp only [facFanOutMsgs, bind_ok_iff] at h
    obtain ⟨w1, h1, h2⟩ := h
    exact (pairUpdateDecimals_ok h1).2.trans (facFanOutMsgs_keep rest h2)

theorem facAddDecimals_ok {w w' : World} {sender denom decimals : Nat}
    (h : facAddDecimals w sender denom decimals = .ok w') : sender = w.owner ∧ Keep w w' := by
  unfold facAddDecimals at h
  dsimp only at h
  split at h
  · cases h
  rename_i hs
  refine ⟨Decidable.not_not.mp hs, ?_⟩
  split at h
  · cases h
  split at h
  · simp only [bind_ok_iff] at h
    obtain ⟨⟨w2, msgs⟩, h1, h2⟩ := h
    have k1 := facFanOut_fold_keep _ h1
    have k2 := facFanOutMsgs_keep _ h2
    exact Keep.trans ⟨k1.owner, k1.facAddr, k1.router⟩ k2
  · simp only [pure_ok_iff] at h
    subst h
    exact ⟨rfl, rfl, rfl⟩

theorem facMigratePair_ok {w w' : World} {sender p : Nat} {c : Option Nat}
    (h : facMigratePair w sender p c = .ok w') :
    sender = w.owner ∧ Keep w w' := by
  unfold facMigratePair at h
  split at h
  · cases h
  rename_i hs
  refine ⟨Decidable.not_not.mp hs, ?_⟩
  split at h
  · cases h
  split at h
  · split at h
    · injection h with h; subst h; exact Keep.refl _
    · cases h
  · cases h

theorem facExec_ok {w w' : World} {s : Nat} {funds : List (Nat × Nat)} {m : FacMsg}
    (h : facExec w s funds m = .ok w') :
    s = w.owner ∧ (Keep w w' ∨ ∃ o tc pc, m = .updateConfig (some o) tc pc ∧ w'.owner = o) := by
  unfold facExec at h
  simp only [bind_ok_iff] at h
  obtain ⟨w0, h0, h⟩ := h
  have k0 := (attach_same h0).1.keep
  cases m with
  | updateConfig o tc pc =>
    obtain ⟨hs, ho, hf, hr⟩ := facUpdateConfig_ok h
    refine ⟨hs.trans k0.owner, ?_⟩
    cases o with
    | none => exact .inl (k0.trans ⟨ho, hf, hr⟩)
    | some o => exact .inr ⟨o, tc, pc, rfl, ho⟩
  | createPair a0 a1 req comm lpDec np nl =>
    obtain ⟨hs, k⟩ := facCreatePair_ok h
    exact ⟨hs.trans k0.owner, .inl (k0.trans k)⟩
  | addDecimals d k =>
    obtain ⟨hs, k⟩ := facAddDecimals_ok h
    exact ⟨hs.trans k0.owner, .inl (k0.trans k)⟩
  | migratePair p c =>
    obtain ⟨hs, k⟩ := facMigratePair_ok h
    exact ⟨hs.trans k0.owner, .inl (k0.trans k)⟩

theorem factory_only_owner {w w' : World} {s : Nat} {funds : List (Nat × Nat)} {m : FacMsg}
    (h : facExec w s funds m = .ok w') : s = w.owner := (facExec_ok h).1

theorem ownership_follows {w w' : World} {s o : Nat} {funds : List (Nat × Nat)} {tc pc : Option Nat}
    (h : facExec w s funds (.updateConfig (some o) tc pc) = .ok w') : w'.owner = o := by
  unfold facExec at h
  simp only [bind_ok_iff] at h
  obtain ⟨w0, h0, h⟩ := h
  exact (facUpdateConfig_ok h).2.1

theorem config_follows {w w' : World} {s : Nat} {funds : List (Nat × Nat)} {o tc pc : Option Nat}
    (h : facExec w s funds (.updateConfig o tc pc) = .ok w') :
    w'.owner = o.getD w.owner ∧ w'.tokenCode = tc.getD w.tokenCode ∧ w'.pairCode = pc.getD w.pairCode := by
  unfold facExec at h
  simp only [bind_ok_iff] at h
  obtain ⟨w0, h0, h⟩ := h
  have ho := (facUpdateConfig_ok h).2.1
  obtain ⟨ht, hp⟩ := facUpdateConfig_codes h
  obtain ⟨cp, ct, _, _⟩ := attach_codes h0
  rw [(attach_same h0).1.owner] at ho
  rw [ct] at ht
  rw [cp] at hp
  exact ⟨ho, ht, hp⟩

theorem tokSend_keep {name : Asset → String} {w w' : World} {t sender dst amt : Nat} {hk : Hook} {out : Out}
    (h : tokSend name w t sender dst amt hk = .ok (w', out)) : Keep w w' := by
  unfold tokSend at h
  split at h
  · exact tokSendPair_keep h
  · split at h
    · simp only [bind_ok_iff, pure_ok_iff, Prod.mk.injEq] at h
      obtain ⟨w1, h1, w2, h2, rfl, _⟩ := h
      exact (tokTransfer_same h1).1.keep.trans (routerReceive_keep h2)
    · cases h

theorem tokSendFrom_keep {name : Asset → String} {w w' : World} {t sp o dst amt : Nat} {hk : Hook} {out : Out}
    (h : tokSendFrom name w t sp o dst amt hk = .ok (w', out)) : Keep w w' := by
  obtain ⟨w1, h1, ⟨_, h2⟩ | ⟨_, _, _, h2⟩⟩ := tokSendFrom_ok h
  · exact (tokTransferFrom_same h1).1.keep.trans (pairReceive_keep h2)
  · exact (tokTransferFrom_same h1).1.keep.trans (routerReceive_keep h2)

/-- the pair's `execute` on a raw `Receive` without funds is `receive_cw20` itself -/
theorem pairExec_receive_nofunds {w : World} {s p from_ amount : Nat} {hk : Hook} (hp : (w.pair p).isSome) :
    pairExec w s p [] (.receive from_ amount hk) = pairReceive w p s from_ amount hk := by
  unfold pairExec
  cases hP : w.pair p with
  | none => rw [hP] at hp; cases hp
  | some P => simp [attach]; rfl

theorem routerExec_receive_nofunds {name : Asset → String} {w : World} {s from_ amount : Nat} {hk : Hook} :
    routerExec name w s [] (.receive from_ amount hk) = routerReceive name w from_ hk := by
  unfold routerExec
  simp [attach]
  rfl

/-- cw20 `SendFrom` is exactly: `TransferFrom` by the spender, then the `Receive` the token contract sends to the
destination — `info.sender` = the token, `cw20_msg.sender` = the SPENDER, no funds — i.e. the very message the
pair / router would process had it been submitted raw by the token contract.  Every statement about a raw
`Receive` (`Op.pair t d [] (.receive …)`, `Op.router t [] (.receive …)`) therefore speaks about `SendFrom` too. -/
theorem exec_tokSendFrom_iff {name : Asset → String} {w : World} {t sp o d amt : Nat} {hk : Hook} {r : World × Out} :
    exec name w (.tokSendFrom t sp o d amt hk) = .ok r ↔
      ∃ w1, tokTransferFrom w t sp o d amt = .ok w1 ∧
        (((w.pair d).isSome ∧ exec name w1 (.pair t d [] (.receive sp amt hk)) = .ok r) ∨
         ((w.pair d).isSome = false ∧ d = w.router ∧ exec name w1 (.router t [] (.receive sp amt hk)) = .ok r)) := by
  obtain ⟨w', out⟩ := r
  constructor
  · intro h
    obtain ⟨w1, h1, h2⟩ := tokSendFrom_ok (show tokSendFrom name w t sp o d amt hk = .ok (w', out) from h)
    have s1 := (tokTransferFrom_same h1).1
    refine ⟨w1, h1, ?_⟩
    rcases h2 with ⟨hd, h2⟩ | ⟨hd, hr, rfl, h2⟩
    · refine .inl ⟨hd, ?_⟩
      show pairExec w1 t d [] (.receive sp amt hk) = .ok (w', out)
      rw [pairExec_receive_nofunds (by rw [s1.pair]; exact hd)]
      exact h2
    · refine .inr ⟨hd, hr, ?_⟩
      show (do let w' ← routerExec name w1 t [] (.receive sp amt hk); pure (w', Out.none)) = .ok (w', Out.none)
      rw [routerExec_receive_nofunds, h2]
      rfl
  · rintro ⟨w1, h1, ⟨hd, h2⟩ | ⟨hd, hr, h2⟩⟩
    · have s1 := (tokTransferFrom_same h1).1
      have h2' : pairExec w1 t d [] (.receive sp amt hk) = .ok (w', out) := h2
      rw [pairExec_receive_nofunds (by rw [s1.pair]; exact hd)] at h2'
      show tokSendFrom name w t sp o d amt hk = .ok (w', out)
      unfold tokSendFrom
      rw [if_pos hd, h1]
      exact h2'
    · have h2' : (do let w' ← routerExec name w1 t [] (.receive sp amt hk); pure (w', Out.none)) = .ok (w', out) := h2
      rw [routerExec_receive_nofunds] at h2'
      show tokSendFrom name w t sp o d amt hk = .ok (w', out)
      unfold tokSendFrom
      rw [if_neg (by simp [hd]), if_pos hr, h1]
      exact h2'

theorem owner_changes_only_by_owner {name : Asset → String} {w w' : World} {op : Op} {out : Out}
    (h : exec name w op = .ok (w', out)) :
    w'.owner = w.owner ∨
      ∃ s f o tc pc, op = .factory s f (.updateConfig (some o) tc pc) ∧ s = w.owner ∧ w'.owner = o := by
  cases op with
  | bankSend s d cs =>
    simp only [exec, bind_ok_iff, pure_ok_iff, Prod.mk.injEq] at h
    obtain ⟨w1, h1, rfl, _⟩ := h
    exact .inl (bankSend_same h1).1.owner
  | tokTransfer t s d a =>
    simp only [exec, bind_ok_iff, pure_ok_iff, Prod.mk.injEq] at h
    obtain ⟨w1, h1, rfl, _⟩ := h
    exact .inl (tokTransfer_same h1).1.owner
  | tokSend t s d a hk => exact .inl (tokSend_keep h).owner
  | tokIncAllow t o s a =>
    simp only [exec, bind_ok_iff, pure_ok_iff, Prod.mk.injEq] at h
    obtain ⟨w1, h1, rfl, _⟩ := h
    exact .inl (tokIncAllow_same h1).1.owner
  | tokBurn t s a =>
    simp only [exec, bind_ok_iff, pure_ok_iff, Prod.mk.injEq] at h
    obtain ⟨w1, h1, rfl, _⟩ := h
    exact .inl (tokBurn_same h1).1.owner
  | pair s p f m => exact .inl (pairExec_keep h).owner
  | router s f m =>
    simp only [exec, bind_ok_iff, pure_ok_iff, Prod.mk.injEq] at h
    obtain ⟨w1, h1, rfl, _⟩ := h
    exact .inl (routerExec_keep h1).owner
  | factory s f m =>
    simp only [exec, bind_ok_iff, pure_ok_iff, Prod.mk.injEq] at h
    obtain ⟨w1, h1, rfl, _⟩ := h
    obtain ⟨hs, hk | ⟨o, tc, pc, rfl, ho⟩⟩ := facExec_ok h1
    · exact .inl hk.owner
    · exact .inr ⟨s, f, o, tc, pc, rfl, hs, ho⟩
  | tokTransferFrom t sp o d a =>
    simp only [exec, bind_ok_iff, pure_ok_iff, Prod.mk.injEq] at h
    obtain ⟨w1, h1, rfl, _⟩ := h
    exact .inl (tokTransferFrom_same h1).1.owner
  | tokSendFrom t sp o d a hk => exact .inl (tokSendFrom_keep h).owner
  | tokBurnFrom t sp o a =>
    simp only [exec, bind_ok_iff, pure_ok_iff, Prod.mk.injEq] at h
    obtain ⟨w1, h1, rfl, _⟩ := h
    exact .inl (tokBurnFrom_same h1).1.owner
  | tokDecAllow t o sp a =>
    simp only [exec, bind_ok_iff, pure_ok_iff, Prod.mk.injEq] at h
    obtain ⟨w1, h1, rfl, _⟩ := h
    exact .inl (tokDecAllow_same h1).1.owner

theorem pair_update_only_factory {w : World} {s p : Nat} {funds : List (Nat × Nat)} {d da db : Nat} {r : World × Out}
    (h : pairExec w s p funds (.updateDecimals d da db) = .ok r) : ∃ P, w.pair p = some P ∧ s = P.factory := by
  obtain ⟨P, w0, w1, hP, h0, h1, _⟩ := pairExec_updateDecimals h
  obtain ⟨⟨P', hP', hs⟩, _⟩ := pairUpdateDecimals_ok h1
  rw [(attach_same h0).1.pair, hP] at hP'
  injection hP' with hP'
  subst hP'
  exact ⟨P, hP, hs⟩

theorem withdraw_hook_only_lp {w : World} {s p from_ amount : Nat} {funds : List (Nat × Nat)} {r : World × Out}
    (h : pairExec w s p funds (.receive from_ amount .withdraw) = .ok r) : ∃ P, w.pair p = some P ∧ s = P.lp := by
  obtain ⟨P, w0, hP, h0, h1⟩ := pairExec_receive h
  obtain ⟨P', hP', hs, _⟩ := pairReceive_withdraw h1
  rw [(attach_same h0).1.pair, hP] at hP'
  injection hP' with hP'
  subst hP'
  exact ⟨P, hP, hs⟩

theorem swap_hook_only_pair_token {w : World} {s p from_ amount : Nat} {funds : List (Nat × Nat)}
    {offer : Asset} {amt : Nat} {b ms to : Option Nat} {r : World × Out}
    (h : pairExec w s p funds (.receive from_ amount (.swap offer amt b ms to)) = .ok r) :
    ∃ P, w.pair p = some P ∧ (P.a0 = .token s ∨ P.a1 = .token s) ∧ offer = .token s ∧ amt = amount := by
  obtain ⟨P, w0, hP, h0, h1⟩ := pairExec_receive h
  obtain ⟨P', hP', ha, ht, ho, _⟩ := pairReceive_swap h1
  rw [(attach_same h0).1.pair, hP] at hP'
  injection hP' with hP'
  subst hP'
  exact ⟨P, hP, ht, ho, ha⟩

theorem send_hook_auth {w : World} {t u p amt : Nat} {h' : Hook} {r : World × Out}
    (h : tokSendPair w t u p amt h' = .ok r) :
    ∃ P, w.pair p = some P ∧
      (match h' with
       | .swap offer a _ _ _ => (P.a0 = .token t ∨ P.a1 = .token t) ∧ offer = .token t ∧ a = amt
       | .withdraw => t = P.lp
       | _ => False) := by
  unfold tokSendPair at h
  simp only [bind_ok_iff] at h
  obtain ⟨w1, h1, h2⟩ := h
  have hp := (tokTransfer_same h1).1.pair
  cases h' with
  | swap offer a b ms to =>
    obtain ⟨P, hP, ha, ht, ho, _⟩ := pairReceive_swap h2
    exact ⟨P, hp ▸ hP, ht, ho, ha⟩
  | withdraw =>
    obtain ⟨P, hP, hs, _⟩ := pairReceive_withdraw h2
    exact ⟨P, hp ▸ hP, hs⟩
  | routerOps ops mn to => exact absurd h2 pairReceive_routerOps
  | garbage => exact absurd h2 pairReceive_garbage

/-- the same authentication for a hook delivered by `SendFrom` to a pair -/
theorem sendFrom_hook_auth {name : Asset → String} {w : World} {t sp o p amt : Nat} {h' : Hook} {r : World × Out}
    (hp : (w.pair p).isSome) (h : tokSendFrom name w t sp o p amt h' = .ok r) :
    ∃ P, w.pair p = some P ∧
      (match h' with
       | .swap offer a _ _ _ => (P.a0 = .token t ∨ P.a1 = .token t) ∧ offer = .token t ∧ a = amt
       | .withdraw => t = P.lp
       | _ => False) := by
  obtain ⟨w', out⟩ := r
  obtain ⟨w1, h1, ⟨_, h2⟩ | ⟨hd, _⟩⟩ := tokSendFrom_ok h
  · have hpair := (tokTransferFrom_same h1).1.pair
    cases h' with
    | swap offer a b ms to =>
      obtain ⟨P, hP, ha, ht, ho, _⟩ := pairReceive_swap h2
      exact ⟨P, hpair ▸ hP, ht, ho, ha⟩
    | withdraw =>
      obtain ⟨P, hP, hs, _⟩ := pairReceive_withdraw h2
      exact ⟨P, hpair ▸ hP, hs⟩
    | routerOps ops mn to => exact absurd h2 pairReceive_routerOps
    | garbage => exact absurd h2 pairReceive_garbage
  · rw [hd] at hp; cases hp

theorem garbage_hook_rejected {w : World} {s p from_ amount : Nat} {funds : List (Nat × Nat)} {r : World × Out} :
    pairExec w s p funds (.receive from_ amount .garbage) ≠ .ok r := by
  intro h
  obtain ⟨P, w0, _, _, h1⟩ := pairExec_receive h
  exact pairReceive_garbage h1

theorem execute_swap_rejects_token_offer {w : World} {s p t amt : Nat} {funds : List (Nat × Nat)}
    {b ms to : Option Nat} {r : World × Out} :
    pairExec w s p funds (.swap (.token t) amt b ms to) ≠ .ok r := pairExec_swap_token

/-! ### C09 at world level -/

theorem assertSent_native {d amt : Nat} {funds : List (Nat × Nat)} {u : Unit}
    (h : assertSent (.native d) amt funds = .ok u) : Spec.c09 d amt funds = true :=
  (Halo.Props.C09.assertSent_iff d amt funds).mp h

theorem provide_native_exact {w : World} {s p : Nat} {funds : List (Nat × Nat)}
    {as0 as1 : Asset} {am0 am1 : Nat} {tol rcv : Option Nat} {r : World × Out}
    (h : pairExec w s p funds (.provide as0 am0 as1 am1 tol rcv) = .ok r) :
    (∀ d, as0 = .native d → Spec.c09 d am0 funds = true) ∧ (∀ d, as1 = .native d → Spec.c09 d am1 funds = true) := by
  obtain ⟨P, w0, w1, sh, _, _, h1, _⟩ := pairExec_provide h
  unfold pairProvide at h1
  simp only [bind_ok_iff] at h1
  obtain ⟨_, ha, _, hb, _⟩ := h1
  exact ⟨fun d hd => assertSent_native (hd ▸ ha), fun d hd => assertSent_native (hd ▸ hb)⟩

theorem swap_native_exact {w : World} {s p d amt : Nat} {funds : List (Nat × Nat)} {b ms to : Option Nat}
    {r : World × Out} (h : pairExec w s p funds (.swap (.native d) amt b ms to) = .ok r) :
    Spec.c09 d amt funds = true := by
  obtain ⟨P, w0, w1, o, _, _, h1, _⟩ := pairExec_swap_native h
  unfold pairSwap at h1
  simp only [bind_ok_iff] at h1
  obtain ⟨_, ha, _⟩ := h1
  exact assertSent_native ha

theorem hook_never_native {w : World} {t u p amt d a : Nat} {b ms to : Option Nat} {r : World × Out} :
    tokSendPair w t u p amt (.swap (.native d) a b ms to) ≠ .ok r := by
  intro h
  obtain ⟨P, _, _, ho, _⟩ := send_hook_auth h
  cases ho

theorem mismatch_changes_nothing {name : Asset → String} {w : World} {s p d amt : Nat} {funds : List (Nat × Nat)}
    {b ms to : Option Nat} (hm : Spec.c09 d amt funds = false) :
    step name w (.pair s p funds (.swap (.native d) amt b ms to)) = w := by
  unfold step
  cases hx : exec name w (.pair s p funds (.swap (.native d) amt b ms to)) with
  | error e => rfl
  | ok r =>
    have hx' : pairExec w s p funds (.swap (.native d) amt b ms to) = .ok r := hx
    rw [swap_native_exact hx'] at hm
    cases hm

end Halo.C14
