/-
Proofs for the limit-monotonicity statement of C10 (`Halo/Props/C10.lean`).
-/
import Halo.Proofs.C10

namespace Halo.C10
open Halo

/-- a swap accepted under `max_spread = ms` is accepted under every larger limit (same belief price) -/
theorem spread_mono_limit {belief : Option Nat} {ms ms' offer ret spread od rd : Nat}
    (h : assertMaxSpread belief (some ms) offer ret spread od rd = .ok ()) (hm : ms ≤ ms') :
    assertMaxSpread belief (some ms') offer ret spread od rd = .ok () := by
  unfold assertMaxSpread at h ⊢
  cases hn : normSpread offer ret spread od rd with
  | error e => rw [hn] at h; simp [bind, Except.bind] at h
  | ok t =>
    obtain ⟨o, r, s⟩ := t
    rw [hn] at h
    simp only [bind, Except.bind] at h ⊢
    cases belief with
    | none =>
      simp only at h ⊢
      cases h1 : Uint.add r s with
      | error e => rw [h1] at h; simp at h
      | ok tot =>
        rw [h1] at h; simp only at h ⊢
        cases h2 : Dec.fromRatio s tot with
        | error e => rw [h2] at h; simp at h
        | ok ratio =>
          rw [h2] at h; simp only at h ⊢
          split at h
          · simp at h
          · rw [if_neg (by omega)]
    | some p =>
      simp only at h ⊢
      cases h1 : Uint.divDec o p with
      | error e => rw [h1] at h; simp at h
      | ok expected =>
        rw [h1] at h; simp only at h ⊢
        split
        · rename_i hlt
          rw [if_pos hlt] at h
          cases h2 : Uint.sub expected r with
          | error e => rw [h2] at h; simp at h
          | ok sp =>
            rw [h2] at h; simp only at h ⊢
            cases h3 : Dec.fromRatio sp expected with
            | error e => rw [h3] at h; simp at h
            | ok ratio =>
              rw [h3] at h; simp only at h ⊢
              split at h
              · simp at h
              · rw [if_neg (by omega)]
        · rfl
end Halo.C10
