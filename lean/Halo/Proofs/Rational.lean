/-
Proofs for `Halo/Props/Rational.lean`: each cross-multiplied natural-number predicate of `Halo/Spec.lean`
is exactly the rational bound of the property text.
-/
import Halo.Spec
import Halo.Inv
import Halo.Proofs.Basic
import Mathlib.Data.Rat.Defs
import Mathlib.Algebra.Order.Field.Basic
import Mathlib.Algebra.Order.Field.Rat
import Mathlib.Tactic.Linarith
import Mathlib.Tactic.Ring
import Mathlib.Tactic.FieldSimp
import Mathlib.Tactic.Positivity
import Mathlib.Tactic.Qify
import Mathlib.Tactic.Zify
import Mathlib.Tactic.NormNum
import Mathlib.Tactic.Push

namespace Halo.Rational
open Halo

/-! ### helpers -/

theorem Eq_pos : (0 : ℚ) < (E : ℚ) := by exact_mod_cast E_pos

private theorem natlt {a b : ℕ} : a < b ↔ (a : ℚ) < (b : ℚ) := Nat.cast_lt.symm
private theorem natle {a b : ℕ} : a ≤ b ↔ (a : ℚ) ≤ (b : ℚ) := Nat.cast_le.symm

/-- `A < B` read after scaling both sides by a positive `D` -/
private theorem lt_scale {A B P Q D : ℚ} (hD : 0 < D) (hA : A * D = P) (hB : B * D = Q) :
    A < B ↔ P < Q := by
  subst hA hB
  exact ⟨fun h => mul_lt_mul_of_pos_right h hD, fun h => lt_of_mul_lt_mul_right h hD.le⟩

private theorem le_scale {A B P Q D : ℚ} (hD : 0 < D) (hA : A * D = P) (hB : B * D = Q) :
    A ≤ B ↔ P ≤ Q := by
  subst hA hB
  exact ⟨fun h => mul_le_mul_of_nonneg_right h hD.le, fun h => le_of_mul_le_mul_right h hD⟩

/-! ### C01 -/

theorem c01_rat {x y a n : Nat} (hD : 0 < x + a) :
    n * (x + a) ≤ y * a ↔ (n : ℚ) ≤ (y : ℚ) * a / ((x : ℚ) + a) := by
  have hD' : (0 : ℚ) < (x : ℚ) + a := by exact_mod_cast hD
  have hD0 : (x : ℚ) + a ≠ 0 := hD'.ne'
  rw [natle]; push_cast
  refine (le_scale hD' ?_ ?_).symm
  · rfl
  · field_simp

/-! ### C06 -/

theorem c06_rat {x y a c n s k : Nat} (hD : 0 < x + a) (hc : c ≤ E) :
    Spec.c06 x y a c n s k = true ↔
      k = (n + k) * c / E ∧ n + k + s = y * a / x ∧
      ((y : ℚ) * a / ((x : ℚ) + a)) * (1 - (c : ℚ) / E) - 1 < (n : ℚ) ∧
      (n : ℚ) < ((y : ℚ) * a / ((x : ℚ) + a)) * (1 - (c : ℚ) / E) + 1 := by
  have hE := Eq_pos
  have hE0 : (E : ℚ) ≠ 0 := hE.ne'
  have hD' : (0 : ℚ) < (x : ℚ) + a := by exact_mod_cast hD
  have hD0 : (x : ℚ) + a ≠ 0 := hD'.ne'
  have hDE : (0 : ℚ) < ((x : ℚ) + a) * E := mul_pos hD' hE
  have up : n * ((x + a) * E) < y * a * (E - c) + (x + a) * E ↔
      (n : ℚ) < ((y : ℚ) * a / ((x : ℚ) + a)) * (1 - (c : ℚ) / E) + 1 := by
    rw [natlt]; push_cast [Nat.cast_sub hc]
    refine (lt_scale hDE ?_ ?_).symm
    · rfl
    · field_simp
  have lo : y * a * (E - c) < (n + 1) * ((x + a) * E) ↔
      ((y : ℚ) * a / ((x : ℚ) + a)) * (1 - (c : ℚ) / E) - 1 < (n : ℚ) := by
    rw [natlt, sub_lt_iff_lt_add]; push_cast [Nat.cast_sub hc]
    refine (lt_scale hDE ?_ ?_).symm
    · field_simp
    · rfl
  simp only [Spec.c06, Bool.and_eq_true, decide_eq_true_eq]
  rw [up, lo]
  constructor
  · rintro ⟨⟨⟨h1, h2⟩, h3⟩, h4⟩; exact ⟨h1, h2, h4, h3⟩
  · rintro ⟨h1, h2, h4, h3⟩; exact ⟨⟨⟨h1, h2⟩, h3⟩, h4⟩

/-! ### C04 -/

theorem c04_rat {r a S x : Nat} (hS : 0 < S) :
    Spec.c04 r a S x = true ↔
      (r : ℚ) * a / S - (r : ℚ) / E - 1 < (x : ℚ) ∧ (x : ℚ) ≤ (r : ℚ) * a / S := by
  have hE := Eq_pos
  have hE0 : (E : ℚ) ≠ 0 := hE.ne'
  have hS' : (0 : ℚ) < S := by exact_mod_cast hS
  have hS0 : (S : ℚ) ≠ 0 := hS'.ne'
  have e1 : x * S ≤ r * a ↔ (x : ℚ) ≤ (r : ℚ) * a / S := by
    rw [natle]; push_cast
    refine (le_scale hS' ?_ ?_).symm
    · rfl
    · field_simp
  have e2 : r * a * E < (x + 1) * S * E + r * S ↔
      (r : ℚ) * a / S - (r : ℚ) / E - 1 < (x : ℚ) := by
    rw [natlt, sub_lt_iff_lt_add, sub_lt_iff_lt_add]; push_cast
    refine (lt_scale (mul_pos hS' hE) ?_ ?_).symm
    · field_simp
    · field_simp
  simp only [Spec.c04, Bool.and_eq_true, decide_eq_true_eq]
  rw [e1, e2]; exact and_comm

/-! ### C05 -/

theorem c05Pos_rat {S d0 d1 r0 r1 m : Nat} (h0 : 0 < r0) (h1 : 0 < r1) :
    Spec.c05Pos S d0 d1 r0 r1 m = true ↔
      min ((d0 : ℚ) * S / r0) ((d1 : ℚ) * S / r1) - 1 < (m : ℚ) ∧
      (m : ℚ) ≤ min ((d0 : ℚ) * S / r0) ((d1 : ℚ) * S / r1) := by
  have le_aux : ∀ {d r : ℕ}, 0 < r → (m * r ≤ d * S ↔ (m : ℚ) ≤ (d : ℚ) * S / r) := by
    intro d r hr
    have hr' : (0 : ℚ) < r := by exact_mod_cast hr
    have hr0 : (r : ℚ) ≠ 0 := hr'.ne'
    rw [natle]; push_cast
    refine (le_scale hr' ?_ ?_).symm
    · rfl
    · field_simp
  have lt_aux : ∀ {d r : ℕ}, 0 < r → (d * S < (m + 1) * r ↔ (d : ℚ) * S / r < (m : ℚ) + 1) := by
    intro d r hr
    have hr' : (0 : ℚ) < r := by exact_mod_cast hr
    have hr0 : (r : ℚ) ≠ 0 := hr'.ne'
    rw [natlt]; push_cast
    refine (lt_scale hr' ?_ ?_).symm
    · field_simp
    · rfl
  simp only [Spec.c05Pos, Bool.and_eq_true, Bool.or_eq_true, decide_eq_true_eq]
  rw [sub_lt_iff_lt_add, min_lt_iff, le_min_iff, le_aux h0, le_aux h1, lt_aux h0, lt_aux h1]
  exact and_comm

/-! ### C10 -/

theorem c10BeliefSound_rat {o r p ms : Nat} (hp : 0 < p) :
    Spec.c10BeliefSound o r p ms = true ↔
      ((1 : ℚ) < (o : ℚ) / ((p : ℚ) / E) → (ms : ℚ) / E < 1 →
        ((o : ℚ) / ((p : ℚ) / E) - 1) * (1 - (ms : ℚ) / E - 1 / E) < (r : ℚ)) := by
  have hE := Eq_pos
  have hE0 : (E : ℚ) ≠ 0 := hE.ne'
  have hp' : (0 : ℚ) < p := by exact_mod_cast hp
  have hp0 : (p : ℚ) ≠ 0 := hp'.ne'
  have e1 : p < o * E ↔ (1 : ℚ) < (o : ℚ) / ((p : ℚ) / E) := by
    rw [natlt]; push_cast
    refine (lt_scale hp' ?_ ?_).symm
    · rw [one_mul]
    · field_simp
  have e2 : ms < E ↔ (ms : ℚ) / E < 1 := by
    rw [natlt]
    refine (lt_scale hE ?_ ?_).symm
    · field_simp
    · rw [one_mul]
  have e3 : p < o * E → ms < E → ((o * E - p) * (E - ms - 1) < r * p * E ↔
      ((o : ℚ) / ((p : ℚ) / E) - 1) * (1 - (ms : ℚ) / E - 1 / E) < (r : ℚ)) := by
    intro h1 h2
    have h3 : 1 ≤ E - ms := by omega
    rw [natlt]; push_cast [Nat.cast_sub h1.le, Nat.cast_sub h2.le, Nat.cast_sub h3]
    refine (lt_scale (mul_pos hp' hE) ?_ ?_).symm
    · field_simp
    · ring
  have key : Spec.c10BeliefSound o r p ms = true ↔
      (p < o * E → ms < E → (o * E - p) * (E - ms - 1) < r * p * E) := by
    unfold Spec.c10BeliefSound
    by_cases h1 : p < o * E <;> by_cases h2 : ms < E <;> simp [h1, h2]
  rw [key, ← e1, ← e2]
  constructor
  · intro h h1 h2; exact (e3 h1 h2).1 (h h1 h2)
  · intro h h1 h2; exact (e3 h1 h2).2 (h h1 h2)

theorem c10BeliefComplete_rat {o r p ms : Nat} (hp : 0 < p) :
    Spec.c10BeliefComplete o r p ms = true ↔
      ms ≤ E ∧ (r : ℚ) < ((o : ℚ) / ((p : ℚ) / E)) * (1 - (ms : ℚ) / E) := by
  have hE := Eq_pos
  have hE0 : (E : ℚ) ≠ 0 := hE.ne'
  have hp' : (0 : ℚ) < p := by exact_mod_cast hp
  have hp0 : (p : ℚ) ≠ 0 := hp'.ne'
  simp only [Spec.c10BeliefComplete, Bool.and_eq_true, decide_eq_true_eq]
  refine and_congr_right (fun hms => ?_)
  rw [natlt]; push_cast [Nat.cast_sub hms]
  refine (lt_scale hp' ?_ ?_).symm
  · rfl
  · field_simp

theorem c10SpreadSound_rat {r s ms : Nat} (h : 0 < r + s) :
    Spec.c10SpreadSound r s ms = true ↔ (s : ℚ) / ((r : ℚ) + s) < (ms : ℚ) / E + 1 / E := by
  have hE := Eq_pos
  have hE0 : (E : ℚ) ≠ 0 := hE.ne'
  have h' : (0 : ℚ) < (r : ℚ) + s := by exact_mod_cast h
  have h0 : (r : ℚ) + s ≠ 0 := h'.ne'
  simp only [Spec.c10SpreadSound, decide_eq_true_eq]
  rw [natlt]; push_cast
  refine (lt_scale (mul_pos h' hE) ?_ ?_).symm
  · field_simp
  · field_simp

theorem c10SpreadComplete_rat {r s ms : Nat} (h : 0 < r + s) :
    Spec.c10SpreadComplete r s ms = true ↔ (ms : ℚ) / E < (s : ℚ) / ((r : ℚ) + s) := by
  have hE := Eq_pos
  have hE0 : (E : ℚ) ≠ 0 := hE.ne'
  have h' : (0 : ℚ) < (r : ℚ) + s := by exact_mod_cast h
  have h0 : (r : ℚ) + s ≠ 0 := h'.ne'
  simp only [Spec.c10SpreadComplete, decide_eq_true_eq]
  rw [natlt]; push_cast
  refine (lt_scale (mul_pos h' hE) ?_ ?_).symm
  · field_simp
  · field_simp

/-! ### C15 -/

private theorem c15s_aux {t d0 d1 r0 r1 : ℕ} (ht : t ≤ E) (hd1 : 0 < d1) (hr1 : 0 < r1) :
    d0 * (E - t) * r1 < r0 * d1 * E + 2 * d1 * r1 ↔
      ((d0 : ℚ) / d1) * (1 - (t : ℚ) / E) < (r0 : ℚ) / r1 + 2 / E := by
  have hE := Eq_pos
  have hE0 : (E : ℚ) ≠ 0 := hE.ne'
  have hd1' : (0 : ℚ) < d1 := by exact_mod_cast hd1
  have hr1' : (0 : ℚ) < r1 := by exact_mod_cast hr1
  have hd10 : (d1 : ℚ) ≠ 0 := hd1'.ne'
  have hr10 : (r1 : ℚ) ≠ 0 := hr1'.ne'
  rw [natlt]; push_cast [Nat.cast_sub ht]
  refine (lt_scale (mul_pos (mul_pos hd1' hr1') hE) ?_ ?_).symm
  · field_simp
  · field_simp

theorem c15Sound_rat {t d0 d1 r0 r1 : Nat} (hd0 : 0 < d0) (hd1 : 0 < d1) (hr0 : 0 < r0) (hr1 : 0 < r1) :
    Spec.c15Sound t d0 d1 r0 r1 = true ↔
      t ≤ E ∧
      ((d0 : ℚ) / d1) * (1 - (t : ℚ) / E) < (r0 : ℚ) / r1 + 2 / E ∧
      ((d1 : ℚ) / d0) * (1 - (t : ℚ) / E) < (r1 : ℚ) / r0 + 2 / E := by
  simp only [Spec.c15Sound, Bool.and_eq_true, decide_eq_true_eq, and_assoc]
  refine and_congr_right (fun ht => ?_)
  exact and_congr (c15s_aux ht hd1 hr1) (c15s_aux ht hd0 hr0)

private theorem c15c_aux {t d0 d1 r0 r1 : ℕ} (ht : t ≤ E) (hd1 : 0 < d1) (hr1 : 0 < r1) :
    r0 * d1 * E < d0 * (E - t) * r1 + d1 * r1 ↔
      ¬ (((d0 : ℚ) / d1) * (1 - (t : ℚ) / E) ≤ (r0 : ℚ) / r1 - 1 / E) := by
  have hE := Eq_pos
  have hE0 : (E : ℚ) ≠ 0 := hE.ne'
  have hd1' : (0 : ℚ) < d1 := by exact_mod_cast hd1
  have hr1' : (0 : ℚ) < r1 := by exact_mod_cast hr1
  have hd10 : (d1 : ℚ) ≠ 0 := hd1'.ne'
  have hr10 : (r1 : ℚ) ≠ 0 := hr1'.ne'
  rw [not_le, sub_lt_iff_lt_add, natlt]; push_cast [Nat.cast_sub ht]
  refine (lt_scale (mul_pos (mul_pos hd1' hr1') hE) ?_ ?_).symm
  · field_simp
  · field_simp

theorem c15Complete_rat {t d0 d1 r0 r1 : Nat} (ht : t ≤ E) (hd0 : 0 < d0) (hd1 : 0 < d1)
    (hr0 : 0 < r0) (hr1 : 0 < r1) :
    Spec.c15Complete t d0 d1 r0 r1 = true ↔
      ¬ (((d0 : ℚ) / d1) * (1 - (t : ℚ) / E) ≤ (r0 : ℚ) / r1 - 1 / E ∧
         ((d1 : ℚ) / d0) * (1 - (t : ℚ) / E) ≤ (r1 : ℚ) / r0 - 1 / E) := by
  simp only [Spec.c15Complete, Bool.or_eq_true, decide_eq_true_eq]
  rw [not_and_or]
  exact or_congr (c15c_aux ht hd1 hr1) (c15c_aux ht hd0 hr0)

/-! ### C12 -/

theorem c12Reverse_rat {x y b c o : Nat} (hd : Spec.c12Domain y b c = true) :
    Spec.c12Reverse x y b c o = true ↔
      (o : ℚ) ≤ (x : ℚ) * y / ((y : ℚ) - (b : ℚ) / (1 - (c : ℚ) / E)) - x := by
  simp only [Spec.c12Domain, Bool.and_eq_true, decide_eq_true_eq] at hd
  obtain ⟨hc, hb⟩ := hd
  have hE := Eq_pos
  have hE0 : (E : ℚ) ≠ 0 := hE.ne'
  have hcc : (0 : ℚ) < (E : ℚ) - c := by
    have : (c : ℚ) < E := by exact_mod_cast hc
    linarith
  have hcc0 : (E : ℚ) - c ≠ 0 := hcc.ne'
  have hbq : (b : ℚ) * E < y * ((E : ℚ) - c) := by
    have := natlt.1 hb
    push_cast [Nat.cast_sub hc.le] at this
    exact this
  have hN : (0 : ℚ) < (y : ℚ) * ((E : ℚ) - c) - b * E := by linarith
  have hN0 : (y : ℚ) * ((E : ℚ) - c) - b * E ≠ 0 := hN.ne'
  have hden : (y : ℚ) - (b : ℚ) / (1 - (c : ℚ) / E) =
      ((y : ℚ) * ((E : ℚ) - c) - b * E) / ((E : ℚ) - c) := by
    field_simp
  simp only [Spec.c12Reverse, decide_eq_true_eq]
  rw [natle, le_sub_iff_add_le, hden]; push_cast [Nat.cast_sub hb.le, Nat.cast_sub hc.le]
  refine (le_scale hN ?_ ?_).symm
  · rfl
  · rw [div_div_eq_mul_div, div_mul_cancel₀ _ hN0]

theorem c12ReverseLower_rat {x y b c o : Nat} (hd : Spec.c12Domain y b c = true) :
    Spec.c12ReverseLower x y b c o = true ↔
      (x : ℚ) * y / ((y : ℚ) - (b : ℚ) / (1 - (c : ℚ) / E) + (b : ℚ) / E + 1) - x - 1 < (o : ℚ) := by
  simp only [Spec.c12Domain, Bool.and_eq_true, decide_eq_true_eq] at hd
  obtain ⟨hc, hb⟩ := hd
  have hE := Eq_pos
  have hE0 : (E : ℚ) ≠ 0 := hE.ne'
  have hb0 : (0 : ℚ) ≤ b := Nat.cast_nonneg b
  have hcc : (0 : ℚ) < (E : ℚ) - c := by
    have : (c : ℚ) < E := by exact_mod_cast hc
    linarith
  have hcc0 : (E : ℚ) - c ≠ 0 := hcc.ne'
  have hbq : (b : ℚ) * E < y * ((E : ℚ) - c) := by
    have := natlt.1 hb
    push_cast [Nat.cast_sub hc.le] at this
    exact this
  have hEcc : (0 : ℚ) < (E : ℚ) * ((E : ℚ) - c) := mul_pos hE hcc
  have hN : (0 : ℚ) < (y : ℚ) * E * ((E : ℚ) - c) - b * E * E + b * ((E : ℚ) - c) + E * ((E : ℚ) - c) := by
    have t1 : (0 : ℚ) < E * ((y : ℚ) * ((E : ℚ) - c) - b * E) := mul_pos hE (by linarith)
    have t2 : (0 : ℚ) ≤ b * ((E : ℚ) - c) := mul_nonneg hb0 hcc.le
    linarith
  have hN0 := hN.ne'
  have hden : (y : ℚ) - (b : ℚ) / (1 - (c : ℚ) / E) + (b : ℚ) / E + 1 =
      ((y : ℚ) * E * ((E : ℚ) - c) - b * E * E + b * ((E : ℚ) - c) + E * ((E : ℚ) - c)) /
        ((E : ℚ) * ((E : ℚ) - c)) := by
    field_simp
  simp only [Spec.c12ReverseLower, decide_eq_true_eq]
  rw [natlt, sub_lt_iff_lt_add, sub_lt_iff_lt_add, hden, div_div_eq_mul_div]
  push_cast [Nat.cast_sub hc.le]
  rw [lt_scale hN (div_mul_cancel₀ _ hN0) rfl]
  constructor <;> intro h <;> linarith

/-! ### C03 -/

theorem nonDecr_rat {r0 r1 S r0' r1' S' : Nat} :
    NonDecr (r0, r1, S) (r0', r1', S') ↔
      (0 < S → 0 < S' ∧ (r0 : ℚ) * r1 / ((S : ℚ) ^ 2) ≤ (r0' : ℚ) * r1' / ((S' : ℚ) ^ 2)) := by
  simp only [NonDecr]
  refine forall_congr' (fun hS => and_congr_right (fun hS' => ?_))
  have a : (0 : ℚ) < (S : ℚ) ^ 2 := by
    have : (0 : ℚ) < S := by exact_mod_cast hS
    positivity
  have b : (0 : ℚ) < (S' : ℚ) ^ 2 := by
    have : (0 : ℚ) < S' := by exact_mod_cast hS'
    positivity
  rw [div_le_div_iff₀ a b, natle]; push_cast
  rw [pow_two, pow_two]

/-! ### C20 -/

theorem entitlement_rat {r a S : Nat} (hS : 0 < S) :
    (r + 2 * E) * S ≤ r * a * E ↔ (r : ℚ) / E + 2 ≤ (r : ℚ) * a / S := by
  have hE := Eq_pos
  have hE0 : (E : ℚ) ≠ 0 := hE.ne'
  have hS' : (0 : ℚ) < S := by exact_mod_cast hS
  have hS0 : (S : ℚ) ≠ 0 := hS'.ne'
  rw [natle]; push_cast
  refine (le_scale (mul_pos hS' hE) ?_ ?_).symm
  · field_simp
  · field_simp

end Halo.Rational
