/-
C12X — proofs: bounds on the reverse formula `compute_offer_amount` that hold on EVERY successful
call (no `Spec.c12Domain` hypothesis), and the band `q < y ≤ ask/(1−γ)` in which the code returns
a quote although the documented real closed form `x·y/(y − ask/(1−γ)) − x` is undefined.

`qR b c = ⌊b·⌊E²/(E−c)⌋/E⌋` is the rounded `ask/(1−γ)` that the code actually subtracts from `y`.
-/
import Halo.Proofs.C12
import Halo.Proofs.Rational

namespace Halo.C12X
open Halo

/-- the rounded `ask/(1−γ)` used by the code: `⌊ask · ⌊E²/(E−c)⌋ / E⌋` -/
abbrev qR (b c : Nat) : Nat := b * (E * E / (E - c)) / E

theorem qR_eq (b c : Nat) : qR b c = b * (E * E / (E - c)) / E := rfl

/-! ### the two floors inside `qR` -/

/-- arithmetic core: `t = ⌊b·inv/E⌋`, `inv = ⌊E²/ω⌋` -/
theorem q_core {b ω E inv t : Nat}
    (hinv1 : inv * ω ≤ E * E) (hinv2 : E * E < (inv + 1) * ω)
    (ht1 : t * E ≤ b * inv) (ht2 : b * inv < (t + 1) * E) (hE : 0 < E) :
    t * ω ≤ b * E ∧ b * E * E + b + ω ≤ (t + 1) * E * ω + b * ω := by
  constructor
  · have : t * ω * E ≤ b * E * E := by
      calc t * ω * E = t * E * ω := by ring
        _ ≤ b * inv * ω := Nat.mul_le_mul_right _ ht1
        _ = b * (inv * ω) := by ring
        _ ≤ b * (E * E) := Nat.mul_le_mul_left _ hinv1
        _ = b * E * E := by ring
    exact Nat.le_of_mul_le_mul_right this hE
  · have h1 : b * (E * E + 1) ≤ b * ((inv + 1) * ω) := Nat.mul_le_mul_left _ hinv2
    have h2 : (b * inv + 1) * ω ≤ (t + 1) * E * ω := Nat.mul_le_mul_right _ ht2
    have e1 : b * (E * E + 1) = b * E * E + b := by ring
    have e2 : b * ((inv + 1) * ω) = b * inv * ω + b * ω := by ring
    have e3 : (b * inv + 1) * ω = b * inv * ω + ω := by ring
    omega

/-- `q ≤ ask/(1−γ)` : the rounded quantity never exceeds the ideal one -/
theorem rounded_le {b c : Nat} (hc : c < E) : qR b c * (E - c) ≤ b * E := by
  have hω : 0 < E - c := by omega
  exact (q_core (C12.div_round (E * E) hω).1 (C12.div_round (E * E) hω).2
    (C12.div_round (b * (E * E / (E - c))) E_pos).1
    (C12.div_round (b * (E * E / (E - c))) E_pos).2 E_pos).1

/-- `ask/(1−γ) < q + 1 + ask/E` (tight integer form: the slack `b + (E−c)` is what the two strict
floor inequalities leave) -/
theorem rounded_gap {b c : Nat} (hc : c < E) :
    b * E * E + b + (E - c) ≤ (qR b c + 1) * E * (E - c) + b * (E - c) := by
  have hω : 0 < E - c := by omega
  exact (q_core (C12.div_round (E * E) hω).1 (C12.div_round (E * E) hω).2
    (C12.div_round (b * (E * E / (E - c))) E_pos).1
    (C12.div_round (b * (E * E / (E - c))) E_pos).2 E_pos).2

/-- strict, clean form of `rounded_gap` -/
theorem rounded_gap_lt {b c : Nat} (hc : c < E) :
    b * E * E < (qR b c + 1) * E * (E - c) + b * (E - c) := by
  have := rounded_gap (b := b) hc
  omega

/-- the same after dividing by `E` (with a floor): `b·E ≤ (q+1)(E−c) + ⌊b(E−c)/E⌋` -/
theorem rounded_gap_div {b c : Nat} (hc : c < E) :
    b * E ≤ (qR b c + 1) * (E - c) + b * (E - c) / E := by
  have hg := rounded_gap (b := b) hc
  have hE := E_pos
  have hr := (C12.div_round (b * (E - c)) hE).2
  -- E·(bE) + (E−c) ≤ E·((q+1)(E−c)) + b(E−c) < E·((q+1)(E−c)) + (⌊b(E−c)/E⌋+1)·E
  by_contra hcon
  have hcon' : (qR b c + 1) * (E - c) + b * (E - c) / E + 1 ≤ b * E := by omega
  have h3 : ((qR b c + 1) * (E - c) + b * (E - c) / E + 1) * E ≤ b * E * E :=
    Nat.mul_le_mul_right _ hcon'
  have e : ((qR b c + 1) * (E - c) + b * (E - c) / E + 1) * E =
      (qR b c + 1) * E * (E - c) + (b * (E - c) / E + 1) * E := by ring
  omega

/-! ### 1. lower bound on every successful call -/

/-- success gives the guards, and `o + x` is exactly the floor quotient -/
theorem reverse_exact {x y b c o s k : Nat}
    (h : computeOfferAmount x y b c = .ok (o, s, k)) :
    c < E ∧ qR b c < y ∧ o + x = x * y / (y - qR b c) := by
  obtain ⟨hc, hty, hxo, rfl, _⟩ := C12.inversion h
  exact ⟨hc, hty, Nat.sub_add_cancel hxo⟩

/-- `o > x·y/(y−q) − x − 1`, `q ≤ ask/(1−γ)`, `ask/(1−γ) < q + 1 + ask/E` — no domain hypothesis -/
theorem reverse_lower_always {x y b c o s k : Nat}
    (h : computeOfferAmount x y b c = .ok (o, s, k)) :
    x * y < (o + x + 1) * (y - qR b c) ∧
    qR b c * (E - c) ≤ b * E ∧
    b * E * E + b + (E - c) ≤ (qR b c + 1) * E * (E - c) + b * (E - c) := by
  obtain ⟨hc, hty, he⟩ := reverse_exact h
  have hden : 0 < y - qR b c := by omega
  refine ⟨?_, rounded_le hc, rounded_gap hc⟩
  rw [he]
  exact (C12.div_round (x * y) hden).2

/-- the perturbed denominator `y − ask/(1−γ) + ask/E + 1` of `Spec.c12ReverseLower` is positive on
every successful call, in fact larger than the denominator `y − q ≥ 1` that the code uses
(so `Spec.c12ReverseLower` is not vacuous off the domain) -/
theorem perturbed_den_gt {x y b c o s k : Nat}
    (h : computeOfferAmount x y b c = .ok (o, s, k)) :
    (y - qR b c) * E * (E - c) + b * E * E <
      y * E * (E - c) + b * (E - c) + E * (E - c) := by
  obtain ⟨hc, hty, _⟩ := reverse_exact h
  have hg := rounded_gap (b := b) hc
  have e1 : y * E * (E - c) = (y - qR b c) * E * (E - c) + qR b c * E * (E - c) := by
    have : y = (y - qR b c) + qR b c := by omega
    calc y * E * (E - c) = ((y - qR b c) + qR b c) * E * (E - c) := by rw [← this]
      _ = _ := by ring
  have e2 : (qR b c + 1) * E * (E - c) = qR b c * E * (E - c) + E * (E - c) := by ring
  have hω : 0 < E - c := by omega
  omega

theorem perturbed_den_pos {x y b c o s k : Nat}
    (h : computeOfferAmount x y b c = .ok (o, s, k)) :
    b * E * E < y * E * (E - c) + b * (E - c) + E * (E - c) := by
  have := perturbed_den_gt h
  omega

/-- `Spec.c12ReverseLower` holds on every successful call (the domain hypothesis of
`C12.reverse_ge_closed_form` is not needed) -/
theorem reverse_ge_closed_form_always {x y b c o s k : Nat}
    (h : computeOfferAmount x y b c = .ok (o, s, k)) :
    Spec.c12ReverseLower x y b c o = true := by
  obtain ⟨hc, hty, he⟩ := reverse_exact h
  simp only [Spec.c12ReverseLower, decide_eq_true_eq]
  have hω : 0 < E - c := by omega
  have hdenpos : 0 < y - qR b c := by omega
  rw [he]
  exact C12.lower_core (C12.div_round (E * E) hω).2
    (C12.div_round (b * (E * E / (E - c))) E_pos).2 hω
    (Nat.sub_add_cancel (Nat.le_of_lt hty)) (C12.div_round (x * y) hdenpos).2

/-! ### 2. upper bound on every successful call -/

/-- `o ≤ x·y/(y−q) − x` — no domain hypothesis -/
theorem reverse_upper_always {x y b c o s k : Nat}
    (h : computeOfferAmount x y b c = .ok (o, s, k)) :
    (o + x) * (y - qR b c) ≤ x * y := by
  obtain ⟨hc, hty, he⟩ := reverse_exact h
  have hden : 0 < y - qR b c := by omega
  rw [he]
  exact (C12.div_round (x * y) hden).1

/-- sanity: the unconditional upper bound implies the documented one (pure arithmetic; off the
domain `Spec.c12Reverse` is trivially true because its truncated factor `y(E−c) − bE` is 0) -/
theorem upper_always_imp_closed_form {x y b c o : Nat} (hc : c < E) (hq : qR b c < y)
    (hu : (o + x) * (y - qR b c) ≤ x * y) :
    Spec.c12Reverse x y b c o = true := by
  simp only [Spec.c12Reverse, decide_eq_true_eq]
  have hle := rounded_le (b := b) hc
  have h2 : y * (E - c) - b * E ≤ (y - qR b c) * (E - c) := by
    have : y * (E - c) = (y - qR b c) * (E - c) + qR b c * (E - c) := by
      have hy : y = (y - qR b c) + qR b c := by omega
      calc y * (E - c) = ((y - qR b c) + qR b c) * (E - c) := by rw [← hy]
        _ = _ := by ring
    omega
  calc (o + x) * (y * (E - c) - b * E) ≤ (o + x) * ((y - qR b c) * (E - c)) :=
        Nat.mul_le_mul_left _ h2
    _ = (o + x) * (y - qR b c) * (E - c) := by ring
    _ ≤ x * y * (E - c) := Nat.mul_le_mul_right _ hu

/-- `C12.reverse_le_closed_form` re-derived through `reverse_upper_always` -/
theorem reverse_le_closed_form_always {x y b c o s k : Nat}
    (h : computeOfferAmount x y b c = .ok (o, s, k)) :
    Spec.c12Reverse x y b c o = true := by
  obtain ⟨hc, hty, _⟩ := reverse_exact h
  exact upper_always_imp_closed_form hc hty (reverse_upper_always h)

/-! ### 3. the band -/

/-- success off the domain: `q < y ≤ ask/(1−γ)`, and the band is narrow:
`ask/(1−γ) < y + ask/E`, `y − q < 1 + ask/E` -/
theorem band_characterisation {x y b c o s k : Nat}
    (h : computeOfferAmount x y b c = .ok (o, s, k)) (hnd : ¬ Spec.c12Domain y b c = true) :
    c < E ∧ qR b c < y ∧ y * (E - c) ≤ b * E ∧
    b * E * E + b + (E - c) ≤ y * E * (E - c) + b * (E - c) ∧
    b * E ≤ y * (E - c) + b * (E - c) / E ∧
    y * E * (E - c) + b + (E - c) ≤ (qR b c + 1) * E * (E - c) + b * (E - c) := by
  obtain ⟨hc, hty, _⟩ := reverse_exact h
  have hyb : y * (E - c) ≤ b * E := by
    simp only [Spec.c12Domain, Bool.and_eq_true, decide_eq_true_eq, not_and, not_lt] at hnd
    exact hnd hc
  have hg := rounded_gap (b := b) hc
  have hgd := rounded_gap_div (b := b) hc
  have hq1 : qR b c + 1 ≤ y := hty
  have m1 : (qR b c + 1) * E * (E - c) ≤ y * E * (E - c) :=
    Nat.mul_le_mul_right _ (Nat.mul_le_mul_right _ hq1)
  have m2 : (qR b c + 1) * (E - c) ≤ y * (E - c) := Nat.mul_le_mul_right _ hq1
  have m3 : y * E * (E - c) ≤ b * E * E := by
    calc y * E * (E - c) = y * (E - c) * E := by ring
      _ ≤ b * E * E := Nat.mul_le_mul_right _ hyb
  refine ⟨hc, hty, hyb, by omega, by omega, by omega⟩

/-! ### 4. rational readings (`γ = c/E`) -/

open Halo.Rational (Eq_pos)

private theorem natlt {a b : ℕ} : a < b ↔ (a : ℚ) < (b : ℚ) := Nat.cast_lt.symm
private theorem natle {a b : ℕ} : a ≤ b ↔ (a : ℚ) ≤ (b : ℚ) := Nat.cast_le.symm

/-- `(o+x+1)(y−q) > x·y` is `o > x·y/(y−q) − x − 1` -/
theorem lower_always_rat {x y q o : Nat} (hq : q < y) :
    x * y < (o + x + 1) * (y - q) ↔
      (x : ℚ) * y / ((y : ℚ) - q) - x - 1 < (o : ℚ) := by
  have hD : (0 : ℚ) < (y : ℚ) - q := by
    have : (q : ℚ) < y := by exact_mod_cast hq
    linarith
  rw [natlt, sub_lt_iff_lt_add, sub_lt_iff_lt_add, div_lt_iff₀ hD]
  push_cast [Nat.cast_sub hq.le]
  rw [show (o : ℚ) + 1 + x = o + x + 1 by ring]

/-- `(o+x)(y−q) ≤ x·y` is `o ≤ x·y/(y−q) − x` -/
theorem upper_always_rat {x y q o : Nat} (hq : q < y) :
    (o + x) * (y - q) ≤ x * y ↔
      (o : ℚ) ≤ (x : ℚ) * y / ((y : ℚ) - q) - x := by
  have hD : (0 : ℚ) < (y : ℚ) - q := by
    have : (q : ℚ) < y := by exact_mod_cast hq
    linarith
  rw [natle, le_sub_iff_add_le, le_div_iff₀ hD]
  push_cast [Nat.cast_sub hq.le]
  rfl

/-- `t·(E−c) ≤ b·E` is `t ≤ b/(1−γ)` -/
theorem le_ideal_rat {t b c : Nat} (hc : c < E) :
    t * (E - c) ≤ b * E ↔ (t : ℚ) ≤ (b : ℚ) / (1 - (c : ℚ) / E) := by
  have hE := Eq_pos
  have hE0 : (E : ℚ) ≠ 0 := hE.ne'
  have hcc : (0 : ℚ) < (E : ℚ) - c := by
    have : (c : ℚ) < E := by exact_mod_cast hc
    linarith
  have h1 : (1 : ℚ) - (c : ℚ) / E = ((E : ℚ) - c) / E := by field_simp
  rw [natle, h1, div_div_eq_mul_div, le_div_iff₀ hcc]
  push_cast [Nat.cast_sub hc.le]
  rfl

/-- `b·E·E < t·E·(E−c) + b·(E−c)` is `b/(1−γ) < t + b/E` -/
theorem lt_ideal_gap_rat {t b c : Nat} (hc : c < E) :
    b * E * E < t * E * (E - c) + b * (E - c) ↔
      (b : ℚ) / (1 - (c : ℚ) / E) < (t : ℚ) + (b : ℚ) / E := by
  have hE := Eq_pos
  have hE0 : (E : ℚ) ≠ 0 := hE.ne'
  have hcc : (0 : ℚ) < (E : ℚ) - c := by
    have : (c : ℚ) < E := by exact_mod_cast hc
    linarith
  have h1 : (1 : ℚ) - (c : ℚ) / E = ((E : ℚ) - c) / E := by field_simp
  rw [natlt, h1, div_div_eq_mul_div, div_lt_iff₀ hcc]
  push_cast [Nat.cast_sub hc.le]
  have e : ((t : ℚ) + (b : ℚ) / E) * ((E : ℚ) - c) * E =
      (t : ℚ) * E * ((E : ℚ) - c) + b * ((E : ℚ) - c) := by field_simp
  rw [← e]
  exact ⟨fun h => lt_of_mul_lt_mul_right h hE.le, fun h => mul_lt_mul_of_pos_right h hE⟩

/-- the rational reading of `Spec.c12ReverseLower` needs only that the perturbed denominator is
positive (which `perturbed_den_pos` gives on every successful call), not `Spec.c12Domain` -/
theorem c12ReverseLower_rat_of_pos {x y b c o : Nat} (hc : c < E)
    (hpos : b * E * E < y * E * (E - c) + b * (E - c) + E * (E - c)) :
    Spec.c12ReverseLower x y b c o = true ↔
      (x : ℚ) * y / ((y : ℚ) - (b : ℚ) / (1 - (c : ℚ) / E) + (b : ℚ) / E + 1) - x - 1 < (o : ℚ) := by
  have hE := Eq_pos
  have hE0 : (E : ℚ) ≠ 0 := hE.ne'
  have hcc : (0 : ℚ) < (E : ℚ) - c := by
    have : (c : ℚ) < E := by exact_mod_cast hc
    linarith
  have hcc0 : (E : ℚ) - c ≠ 0 := hcc.ne'
  have hEcc : (0 : ℚ) < (E : ℚ) * ((E : ℚ) - c) := mul_pos hE hcc
  have hN : (0 : ℚ) < (y : ℚ) * E * ((E : ℚ) - c) - b * E * E + b * ((E : ℚ) - c) +
      E * ((E : ℚ) - c) := by
    have := natlt.1 hpos
    push_cast [Nat.cast_sub hc.le] at this
    linarith
  have hN0 := hN.ne'
  have hden : (y : ℚ) - (b : ℚ) / (1 - (c : ℚ) / E) + (b : ℚ) / E + 1 =
      ((y : ℚ) * E * ((E : ℚ) - c) - b * E * E + b * ((E : ℚ) - c) + E * ((E : ℚ) - c)) /
        ((E : ℚ) * ((E : ℚ) - c)) := by
    field_simp
  simp only [Spec.c12ReverseLower, decide_eq_true_eq]
  rw [natlt, sub_lt_iff_lt_add, sub_lt_iff_lt_add, hden, div_div_eq_mul_div, div_lt_iff₀ hN]
  push_cast [Nat.cast_sub hc.le]
  constructor <;> intro h <;> linarith

/-- off the domain (with `c < 1`) is exactly `y ≤ ask/(1−γ)` -/
theorem not_domain_rat {y b c : Nat} (hc : c < E) :
    ¬ Spec.c12Domain y b c = true ↔ (y : ℚ) ≤ (b : ℚ) / (1 - (c : ℚ) / E) := by
  rw [← le_ideal_rat hc]
  simp only [Spec.c12Domain, Bool.and_eq_true, decide_eq_true_eq, not_and, not_lt]
  exact ⟨fun h => h hc, fun h _ => h⟩

/-- all unconditional bounds of a successful call, over ℚ -/
theorem reverse_bounds_rat {x y b c o s k : Nat}
    (h : computeOfferAmount x y b c = .ok (o, s, k)) :
    (c : ℚ) < E ∧ (qR b c : ℚ) < y ∧
    (x : ℚ) * y / ((y : ℚ) - qR b c) - x - 1 < (o : ℚ) ∧
    (o : ℚ) ≤ (x : ℚ) * y / ((y : ℚ) - qR b c) - x ∧
    (qR b c : ℚ) ≤ (b : ℚ) / (1 - (c : ℚ) / E) ∧
    (b : ℚ) / (1 - (c : ℚ) / E) < (qR b c : ℚ) + 1 + (b : ℚ) / E ∧
    (x : ℚ) * y / ((y : ℚ) - (b : ℚ) / (1 - (c : ℚ) / E) + (b : ℚ) / E + 1) - x - 1 < (o : ℚ) := by
  obtain ⟨hc, hty, _⟩ := reverse_exact h
  refine ⟨by exact_mod_cast hc, by exact_mod_cast hty,
    (lower_always_rat hty).1 (reverse_lower_always h).1,
    (upper_always_rat hty).1 (reverse_upper_always h),
    (le_ideal_rat hc).1 (rounded_le hc), ?_,
    (c12ReverseLower_rat_of_pos hc (perturbed_den_pos h)).1 (reverse_ge_closed_form_always h)⟩
  have := (lt_ideal_gap_rat (t := qR b c + 1) hc).1 (rounded_gap_lt hc)
  push_cast at this
  exact this

/-- the band over ℚ: `q < y ≤ ask/(1−γ) < y + ask/E` and `y − q < 1 + ask/E` -/
theorem band_rat {x y b c o s k : Nat}
    (h : computeOfferAmount x y b c = .ok (o, s, k)) (hnd : ¬ Spec.c12Domain y b c = true) :
    (qR b c : ℚ) < y ∧ (y : ℚ) ≤ (b : ℚ) / (1 - (c : ℚ) / E) ∧
    (b : ℚ) / (1 - (c : ℚ) / E) < (y : ℚ) + (b : ℚ) / E ∧
    (y : ℚ) - qR b c < 1 + (b : ℚ) / E := by
  obtain ⟨hc, hty, hyb, hn, _, _⟩ := band_characterisation h hnd
  have h2 := (not_domain_rat hc).1 hnd
  have h3 : (b : ℚ) / (1 - (c : ℚ) / E) < (y : ℚ) + (b : ℚ) / E :=
    (lt_ideal_gap_rat hc).1 (by omega)
  have h4 := (reverse_bounds_rat h).2.2.2.2.2.1
  exact ⟨by exact_mod_cast hty, h2, h3, by linarith⟩

end Halo.C12X
