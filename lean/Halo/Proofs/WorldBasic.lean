/-
Foundation for the world-level proofs: for every ledger primitive of `Halo/World.lean`
  * an inversion lemma (`…_ok`): what success means and the exact resulting world,
  * its effect on `bal` (every asset, every account) and on token supplies,
  * preservation of the static part of the world (`Same`): pair states, registry, owner, denoms, ….
Core Lean only.
-/
import Halo.Proofs.Basic
import Halo.World

namespace Halo

/-- the contract-state part of the world is unchanged (only ledgers may differ) -/
structure Same (w w' : World) : Prop where
  pair : w'.pair = w.pair
  registry : w'.registry = w.registry
  owner : w'.owner = w.owner
  facAddr : w'.facAddr = w.facAddr
  router : w'.router = w.router
  denoms : w'.denoms = w.denoms
  rawId : w'.rawId = w.rawId
  badAddr : w'.badAddr = w.badAddr

theorem Same.refl (w : World) : Same w w := ⟨rfl, rfl, rfl, rfl, rfl, rfl, rfl, rfl⟩
theorem Same.trans {a b c : World} (h1 : Same a b) (h2 : Same b c) : Same a c :=
  ⟨h2.pair.trans h1.pair, h2.registry.trans h1.registry, h2.owner.trans h1.owner, h2.facAddr.trans h1.facAddr,
   h2.router.trans h1.router, h2.denoms.trans h1.denoms, h2.rawId.trans h1.rawId, h2.badAddr.trans h1.badAddr⟩

/-- total supply of a cw20 token, 0 if unknown -/
def supply (w : World) (t : Nat) : Nat := match w.tok t with | some T => T.supply | none => 0

/-- which cw20 contracts exist is part of what ledger operations preserve -/
def SameToks (w w' : World) : Prop := ∀ t, (w'.tok t).isSome = (w.tok t).isSome

theorem SameToks.refl (w : World) : SameToks w w := fun _ => rfl
theorem SameToks.trans {a b c : World} (h1 : SameToks a b) (h2 : SameToks b c) : SameToks a c :=
  fun t => (h2 t).trans (h1 t)

/-! ### address validation -/

theorem validAddr_ok_iff {w : World} {a : Nat} {u : Unit} : validAddr w a = .ok u ↔ w.badAddr a = false := by
  unfold validAddr
  cases w.badAddr a <;> simp

theorem validTo_ok_iff {w : World} {dst : Option Nat} {u : Unit} : validTo w dst = .ok u ↔ badTo w dst = false := by
  unfold validTo
  cases badTo w dst <;> simp

theorem badTo_some (w : World) (a : Nat) : badTo w (some a) = w.badAddr a := rfl
theorem badTo_none (w : World) : badTo w none = false := rfl

theorem validTo_none (w : World) : validTo w none = .ok () := rfl

theorem validTo_bad {w : World} {a : Nat} (h : w.badAddr a = true) : validTo w (some a) = .error .err := by
  simp [validTo, badTo, h]

theorem validAddr_bad {w : World} {a : Nat} (h : w.badAddr a = true) : validAddr w a = .error .err := by
  simp [validAddr, h]

theorem validTo_congr {w w' : World} (h : w'.badAddr = w.badAddr) (dst : Option Nat) : validTo w' dst = validTo w dst := by
  have hb : badTo w' dst = badTo w dst := by cases dst <;> simp [badTo, h]
  unfold validTo
  rw [hb]

/-! ### bank -/

theorem bankMove1_ok {w w' : World} {src dst d amt : Nat} (h : bankMove1 w src dst d amt = .ok w') :
    amt ≤ w.bank src d ∧
    w' = { w with bank := fun a x =>
      if a = dst ∧ x = d then (if a = src ∧ x = d then w.bank a x - amt else w.bank a x) + amt
      else if a = src ∧ x = d then w.bank a x - amt else w.bank a x } := by
  unfold bankMove1 at h
  split at h
  · cases h
  · injection h with h
    exact ⟨by omega, h.symm⟩

theorem bankMove1_same {w w' : World} {src dst d amt : Nat} (h : bankMove1 w src dst d amt = .ok w') :
    Same w w' ∧ w'.tok = w.tok := by
  obtain ⟨_, rfl⟩ := bankMove1_ok h
  exact ⟨⟨rfl, rfl, rfl, rfl, rfl, rfl, rfl, rfl⟩, rfl⟩

theorem bankMove1_bank {w w' : World} {src dst d amt : Nat} (h : bankMove1 w src dst d amt = .ok w') (a x : Nat) :
    w'.bank a x =
      if x = d then
        (if a = dst then (if a = src then w.bank a x - amt else w.bank a x) + amt
         else if a = src then w.bank a x - amt else w.bank a x)
      else w.bank a x := by
  obtain ⟨_, rfl⟩ := bankMove1_ok h
  by_cases hx : x = d <;> by_cases ha : a = dst <;> by_cases hs : a = src <;> simp [hx, ha, hs]

theorem bankMoveList_same {src dst : Nat} : ∀ {cs : List (Nat × Nat)} {w w' : World},
    bankMoveList w src dst cs = .ok w' → Same w w' ∧ w'.tok = w.tok
  | [], w, w', h => by
    simp only [bankMoveList] at h; injection h with h; subst h; exact ⟨Same.refl _, rfl⟩
  | (d, amt) :: cs, w, w', h => by
    simp only [bankMoveList, bind_ok_iff] at h
    obtain ⟨w1, h1, h2⟩ := h
    obtain ⟨s1, t1⟩ := bankMove1_same h1
    obtain ⟨s2, t2⟩ := bankMoveList_same h2
    exact ⟨s1.trans s2, t2.trans t1⟩

theorem bankSend_same {w w' : World} {src dst : Nat} {cs : List (Nat × Nat)}
    (h : bankSend w src dst cs = .ok w') : Same w w' ∧ w'.tok = w.tok := by
  unfold bankSend at h
  dsimp only at h
  split at h
  · cases h
  · exact bankMoveList_same h

theorem attach_same {w w' : World} {src dst : Nat} {cs : List (Nat × Nat)}
    (h : attach w src dst cs = .ok w') : Same w w' ∧ w'.tok = w.tok := by
  unfold attach at h
  split at h
  · injection h with h; subst h; exact ⟨Same.refl _, rfl⟩
  · exact bankSend_same h

/-- attaching funds touches only `bank`: the factory's code-id configuration (and the environment's) is unchanged -/
theorem bankMoveList_codes {src dst : Nat} : ∀ {cs : List (Nat × Nat)} {w w' : World},
    bankMoveList w src dst cs = .ok w' →
      w'.pairCode = w.pairCode ∧ w'.tokenCode = w.tokenCode ∧ w'.envPairCode = w.envPairCode ∧
        w'.envTokenCode = w.envTokenCode
  | [], w, w', h => by
    simp only [bankMoveList] at h; injection h with h; subst h; exact ⟨rfl, rfl, rfl, rfl⟩
  | (d, amt) :: cs, w, w', h => by
    simp only [bankMoveList, bind_ok_iff] at h
    obtain ⟨w1, h1, h2⟩ := h
    obtain ⟨_, rfl⟩ := bankMove1_ok h1
    have k := bankMoveList_codes h2
    exact k

theorem attach_codes {w w' : World} {src dst : Nat} {cs : List (Nat × Nat)}
    (h : attach w src dst cs = .ok w') :
    w'.pairCode = w.pairCode ∧ w'.tokenCode = w.tokenCode ∧ w'.envPairCode = w.envPairCode ∧
      w'.envTokenCode = w.envTokenCode := by
  unfold attach at h
  split at h
  · injection h with h; subst h; exact ⟨rfl, rfl, rfl, rfl⟩
  · unfold bankSend at h
    dsimp only at h
    split at h
    · cases h
    · exact bankMoveList_codes h

/-- a single-coin bank send: the form every payout and every router hop uses -/
theorem bankSend_single {w w' : World} {src dst d amt : Nat} (h : bankSend w src dst [(d, amt)] = .ok w') :
    amt ≠ 0 ∧ bankMove1 w src dst d amt = .ok w' := by
  unfold bankSend at h
  by_cases h0 : amt = 0
  · simp [h0] at h
  · simp only [List.filter, h0, ne_eq, not_false_eq_true, decide_true] at h
    simp only [reduceCtorEq, ↓reduceIte, bankMoveList, bind_ok_iff] at h
    obtain ⟨w1, h1, h2⟩ := h
    injection h2 with h2; subst h2
    exact ⟨h0, h1⟩

/-! ### cw20 -/

theorem setTok_same (w : World) (t : Nat) (T : Token) : Same w (setTok w t T) ∧ (setTok w t T).bank = w.bank :=
  ⟨⟨rfl, rfl, rfl, rfl, rfl, rfl, rfl, rfl⟩, rfl⟩

theorem setTok_tok (w : World) (t : Nat) (T : Token) (a : Nat) :
    (setTok w t T).tok a = if a = t then some T else w.tok a := rfl

theorem tokTransfer_ok {w w' : World} {t src dst amt : Nat} (h : tokTransfer w t src dst amt = .ok w') :
    ∃ T, w.tok t = some T ∧ amt ≠ 0 ∧ amt ≤ T.bal src ∧
      w' = setTok w t { T with bal := fun a =>
        if a = dst then (if a = src then T.bal a - amt else T.bal a) + amt
        else if a = src then T.bal a - amt else T.bal a } := by
  unfold tokTransfer at h
  split at h
  · cases h
  · rename_i T hT
    split at h
    · cases h
    · split at h
      · cases h
      · injection h with h
        exact ⟨T, hT, by assumption, by omega, h.symm⟩

theorem tokTransferFrom_ok {w w' : World} {t spender owner dst amt : Nat}
    (h : tokTransferFrom w t spender owner dst amt = .ok w') :
    ∃ T al, w.tok t = some T ∧ T.allow owner spender = some al ∧ amt ≤ al ∧ amt ≤ T.bal owner ∧
      w' = setTok w t { T with
        bal := fun a =>
          if a = dst then (if a = owner then T.bal a - amt else T.bal a) + amt
          else if a = owner then T.bal a - amt else T.bal a
        allow := fun o s => if o = owner ∧ s = spender then some (al - amt) else T.allow o s } := by
  unfold tokTransferFrom at h
  split at h
  · cases h
  · rename_i T hT
    split at h
    · cases h
    · rename_i al hal
      split at h
      · cases h
      · split at h
        · cases h
        · injection h with h
          exact ⟨T, al, hT, hal, by omega, by omega, h.symm⟩

theorem tokMint_ok {w w' : World} {t sender dst amt : Nat} (h : tokMint w t sender dst amt = .ok w') :
    ∃ T, w.tok t = some T ∧ amt ≠ 0 ∧ T.minter = some sender ∧ T.supply + amt < W ∧
      w' = setTok w t { T with supply := T.supply + amt, bal := fun a => if a = dst then T.bal a + amt else T.bal a } := by
  unfold tokMint at h
  split at h
  · cases h
  · rename_i T hT
    split at h
    · cases h
    · split at h
      · cases h
      · split at h
        · cases h
        · injection h with h
          rename_i h1 h2 h3
          exact ⟨T, hT, h1, by simpa using h2, by omega, h.symm⟩

theorem tokBurn_ok {w w' : World} {t sender amt : Nat} (h : tokBurn w t sender amt = .ok w') :
    ∃ T, w.tok t = some T ∧ amt ≠ 0 ∧ amt ≤ T.bal sender ∧ amt ≤ T.supply ∧
      w' = setTok w t { T with supply := T.supply - amt, bal := fun a => if a = sender then T.bal a - amt else T.bal a } := by
  unfold tokBurn at h
  split at h
  · cases h
  · rename_i T hT
    split at h
    · cases h
    · split at h
      · cases h
      · split at h
        · cases h
        · injection h with h
          exact ⟨T, hT, by assumption, by omega, by omega, h.symm⟩

theorem tokIncAllow_ok {w w' : World} {t owner spender amt : Nat} (h : tokIncAllow w t owner spender amt = .ok w') :
    ∃ T, w.tok t = some T ∧ spender ≠ owner ∧
      w' = setTok w t { T with allow := fun o s =>
        if o = owner ∧ s = spender then some ((T.allow owner spender).getD 0 + amt) else T.allow o s } := by
  unfold tokIncAllow at h
  split at h
  · cases h
  · rename_i T hT
    split at h
    · cases h
    · dsimp only at h
      split at h
      · cases h
      · injection h with h
        exact ⟨T, hT, by assumption, h.symm⟩

theorem tokTransfer_same {w w' : World} {t src dst amt : Nat} (h : tokTransfer w t src dst amt = .ok w') :
    Same w w' ∧ w'.bank = w.bank := by
  obtain ⟨T, _, _, _, rfl⟩ := tokTransfer_ok h; exact setTok_same _ _ _
theorem tokTransferFrom_same {w w' : World} {t sp o dst amt : Nat} (h : tokTransferFrom w t sp o dst amt = .ok w') :
    Same w w' ∧ w'.bank = w.bank := by
  obtain ⟨T, al, _, _, _, _, rfl⟩ := tokTransferFrom_ok h; exact setTok_same _ _ _
theorem tokMint_same {w w' : World} {t s dst amt : Nat} (h : tokMint w t s dst amt = .ok w') :
    Same w w' ∧ w'.bank = w.bank := by
  obtain ⟨T, _, _, _, _, rfl⟩ := tokMint_ok h; exact setTok_same _ _ _
theorem tokBurn_same {w w' : World} {t s amt : Nat} (h : tokBurn w t s amt = .ok w') :
    Same w w' ∧ w'.bank = w.bank := by
  obtain ⟨T, _, _, _, _, rfl⟩ := tokBurn_ok h; exact setTok_same _ _ _
theorem tokIncAllow_same {w w' : World} {t o s amt : Nat} (h : tokIncAllow w t o s amt = .ok w') :
    Same w w' ∧ w'.bank = w.bank := by
  obtain ⟨T, _, _, rfl⟩ := tokIncAllow_ok h; exact setTok_same _ _ _

theorem payout_same {w w' : World} {src : Nat} {a : Asset} {dst amt : Nat} (h : payout w src a dst amt = .ok w') :
    Same w w' := by
  cases a with
  | native d => exact (bankSend_same h).1
  | token t => exact (tokTransfer_same h).1

/-! ### `bal` under the primitives -/

theorem bal_native (w : World) (d z : Nat) : bal w (.native d) z = w.bank z d := rfl

theorem bal_token (w : World) (t z : Nat) :
    bal w (.token t) z = match w.tok t with | none => 0 | some T => T.bal z := rfl

theorem balOf_ok {w : World} {a : Asset} {z v : Nat} (h : balOf w a z = .ok v) : v = bal w a z := by
  cases a with
  | native d => simp only [balOf] at h; injection h with h; exact h.symm
  | token t =>
    simp only [balOf] at h
    cases hT : w.tok t with
    | none => simp [hT] at h
    | some T => simp only [hT] at h; injection h with h; simp [bal, hT, h]

theorem balOf_token_ok {w : World} {t z v : Nat} (h : balOf w (.token t) z = .ok v) : (w.tok t).isSome := by
  simp only [balOf] at h
  cases hT : w.tok t with
  | none => simp [hT] at h
  | some T => simp

theorem bal_bankMove1 {w w' : World} {src dst d amt : Nat} (h : bankMove1 w src dst d amt = .ok w')
    (a : Asset) (z : Nat) :
    bal w' a z =
      if a = .native d then
        (if z = dst then (if z = src then bal w a z - amt else bal w a z) + amt
         else if z = src then bal w a z - amt else bal w a z)
      else bal w a z := by
  cases a with
  | native d' =>
    simp only [bal_native, bankMove1_bank h, Asset.native.injEq]
  | token t =>
    have ht := (bankMove1_same h).2
    simp [bal, ht]

theorem bal_tokTransfer {w w' : World} {t src dst amt : Nat} (h : tokTransfer w t src dst amt = .ok w')
    (a : Asset) (z : Nat) :
    bal w' a z =
      if a = .token t then
        (if z = dst then (if z = src then bal w a z - amt else bal w a z) + amt
         else if z = src then bal w a z - amt else bal w a z)
      else bal w a z := by
  obtain ⟨T, hT, _, _, rfl⟩ := tokTransfer_ok h
  cases a with
  | native d => simp [bal, setTok]
  | token t' =>
    by_cases ht : t' = t
    · subst ht; simp [bal, setTok, hT]
    · simp [bal, setTok, ht]

theorem bal_tokTransferFrom {w w' : World} {t sp owner dst amt : Nat}
    (h : tokTransferFrom w t sp owner dst amt = .ok w') (a : Asset) (z : Nat) :
    bal w' a z =
      if a = .token t then
        (if z = dst then (if z = owner then bal w a z - amt else bal w a z) + amt
         else if z = owner then bal w a z - amt else bal w a z)
      else bal w a z := by
  obtain ⟨T, al, hT, _, _, _, rfl⟩ := tokTransferFrom_ok h
  cases a with
  | native d => simp [bal, setTok]
  | token t' =>
    by_cases ht : t' = t
    · subst ht; simp [bal, setTok, hT]
    · simp [bal, setTok, ht]

theorem bal_tokMint {w w' : World} {t s dst amt : Nat} (h : tokMint w t s dst amt = .ok w') (a : Asset) (z : Nat) :
    bal w' a z = if a = .token t ∧ z = dst then bal w a z + amt else bal w a z := by
  obtain ⟨T, hT, _, _, _, rfl⟩ := tokMint_ok h
  cases a with
  | native d => simp [bal, setTok]
  | token t' =>
    by_cases ht : t' = t
    · subst ht; by_cases hz : z = dst <;> simp [bal, setTok, hT, hz]
    · simp [bal, setTok, ht]

theorem bal_tokBurn {w w' : World} {t s amt : Nat} (h : tokBurn w t s amt = .ok w') (a : Asset) (z : Nat) :
    bal w' a z = if a = .token t ∧ z = s then bal w a z - amt else bal w a z := by
  obtain ⟨T, hT, _, _, _, rfl⟩ := tokBurn_ok h
  cases a with
  | native d => simp [bal, setTok]
  | token t' =>
    by_cases ht : t' = t
    · subst ht; by_cases hz : z = s <;> simp [bal, setTok, hT, hz]
    · simp [bal, setTok, ht]

theorem bal_tokIncAllow {w w' : World} {t o s amt : Nat} (h : tokIncAllow w t o s amt = .ok w') (a : Asset) (z : Nat) :
    bal w' a z = bal w a z := by
  obtain ⟨T, hT, _, rfl⟩ := tokIncAllow_ok h
  cases a with
  | native d => simp [bal, setTok]
  | token t' =>
    by_cases ht : t' = t
    · subst ht; simp [bal, setTok, hT]
    · simp [bal, setTok, ht]

/-! ### supplies under the primitives -/

theorem supply_bankMove1 {w w' : World} {src dst d amt : Nat} (h : bankMove1 w src dst d amt = .ok w') (t : Nat) :
    supply w' t = supply w t := by simp [supply, (bankMove1_same h).2]

theorem supply_tokTransfer {w w' : World} {t src dst amt : Nat} (h : tokTransfer w t src dst amt = .ok w') (u : Nat) :
    supply w' u = supply w u := by
  obtain ⟨T, hT, _, _, rfl⟩ := tokTransfer_ok h
  by_cases hu : u = t
  · subst hu; simp [supply, setTok, hT]
  · simp [supply, setTok, hu]

theorem supply_tokTransferFrom {w w' : World} {t sp o dst amt : Nat}
    (h : tokTransferFrom w t sp o dst amt = .ok w') (u : Nat) : supply w' u = supply w u := by
  obtain ⟨T, al, hT, _, _, _, rfl⟩ := tokTransferFrom_ok h
  by_cases hu : u = t
  · subst hu; simp [supply, setTok, hT]
  · simp [supply, setTok, hu]

theorem supply_tokMint {w w' : World} {t s dst amt : Nat} (h : tokMint w t s dst amt = .ok w') (u : Nat) :
    supply w' u = if u = t then supply w u + amt else supply w u := by
  obtain ⟨T, hT, _, _, _, rfl⟩ := tokMint_ok h
  by_cases hu : u = t
  · subst hu; simp [supply, setTok, hT]
  · simp [supply, setTok, hu]

theorem supply_tokBurn {w w' : World} {t s amt : Nat} (h : tokBurn w t s amt = .ok w') (u : Nat) :
    supply w' u = if u = t then supply w u - amt else supply w u := by
  obtain ⟨T, hT, _, _, _, rfl⟩ := tokBurn_ok h
  by_cases hu : u = t
  · subst hu; simp [supply, setTok, hT]
  · simp [supply, setTok, hu]

theorem supply_tokIncAllow {w w' : World} {t o s amt : Nat} (h : tokIncAllow w t o s amt = .ok w') (u : Nat) :
    supply w' u = supply w u := by
  obtain ⟨T, hT, _, rfl⟩ := tokIncAllow_ok h
  by_cases hu : u = t
  · subst hu; simp [supply, setTok, hT]
  · simp [supply, setTok, hu]

theorem supplyOf_ok {w : World} {t v : Nat} (h : supplyOf w t = .ok v) : v = supply w t ∧ (w.tok t).isSome := by
  simp only [supplyOf] at h
  cases hT : w.tok t with
  | none => simp [hT] at h
  | some T => simp only [hT] at h; injection h with h; simp [supply, hT, h]

/-! ### token existence is preserved -/

theorem sameToks_setTok {w : World} {t : Nat} {T T' : Token} (h : w.tok t = some T) : SameToks w (setTok w t T') := by
  intro a
  by_cases ha : a = t
  · subst ha; simp [setTok, h]
  · simp [setTok, ha]

theorem sameToks_of_tok_eq {w w' : World} (h : w'.tok = w.tok) : SameToks w w' := fun t => by rw [h]

theorem tokTransfer_sameToks {w w' : World} {t src dst amt : Nat} (h : tokTransfer w t src dst amt = .ok w') :
    SameToks w w' := by
  obtain ⟨T, hT, _, _, rfl⟩ := tokTransfer_ok h; exact sameToks_setTok hT
theorem tokTransferFrom_sameToks {w w' : World} {t sp o dst amt : Nat}
    (h : tokTransferFrom w t sp o dst amt = .ok w') : SameToks w w' := by
  obtain ⟨T, al, hT, _, _, _, rfl⟩ := tokTransferFrom_ok h; exact sameToks_setTok hT
theorem tokMint_sameToks {w w' : World} {t s dst amt : Nat} (h : tokMint w t s dst amt = .ok w') : SameToks w w' := by
  obtain ⟨T, hT, _, _, _, rfl⟩ := tokMint_ok h; exact sameToks_setTok hT
theorem tokBurn_sameToks {w w' : World} {t s amt : Nat} (h : tokBurn w t s amt = .ok w') : SameToks w w' := by
  obtain ⟨T, hT, _, _, _, rfl⟩ := tokBurn_ok h; exact sameToks_setTok hT
theorem tokIncAllow_sameToks {w w' : World} {t o s amt : Nat} (h : tokIncAllow w t o s amt = .ok w') :
    SameToks w w' := by
  obtain ⟨T, hT, _, rfl⟩ := tokIncAllow_ok h; exact sameToks_setTok hT
theorem payout_sameToks {w w' : World} {src : Nat} {a : Asset} {dst amt : Nat} (h : payout w src a dst amt = .ok w') :
    SameToks w w' := by
  cases a with
  | native d => exact sameToks_of_tok_eq (bankSend_same h).2
  | token t => exact tokTransfer_sameToks h

/-! ### cw20 allowance spending by a third party: `BurnFrom`, `DecreaseAllowance` -/

theorem tokBurnFrom_ok {w w' : World} {t spender owner amt : Nat}
    (h : tokBurnFrom w t spender owner amt = .ok w') :
    ∃ T al, w.tok t = some T ∧ T.allow owner spender = some al ∧ amt ≤ al ∧ amt ≤ T.bal owner ∧ amt ≤ T.supply ∧
      w' = setTok w t { T with
        supply := T.supply - amt
        bal := fun a => if a = owner then T.bal a - amt else T.bal a
        allow := fun o s => if o = owner ∧ s = spender then some (al - amt) else T.allow o s } := by
  unfold tokBurnFrom at h
  split at h
  · cases h
  · rename_i T hT
    split at h
    · cases h
    · rename_i al hal
      split at h
      · cases h
      · split at h
        · cases h
        · split at h
          · cases h
          · injection h with h
            exact ⟨T, al, hT, hal, by omega, by omega, by omega, h.symm⟩

theorem tokDecAllow_ok {w w' : World} {t owner spender amt : Nat} (h : tokDecAllow w t owner spender amt = .ok w') :
    ∃ T al, w.tok t = some T ∧ spender ≠ owner ∧ T.allow owner spender = some al ∧
      w' = setTok w t { T with allow := fun o s =>
        if o = owner ∧ s = spender then (if amt < al then some (al - amt) else none) else T.allow o s } := by
  unfold tokDecAllow at h
  split at h
  · cases h
  · rename_i T hT
    split at h
    · cases h
    · split at h
      · cases h
      · rename_i al hal
        injection h with h
        exact ⟨T, al, hT, by assumption, hal, h.symm⟩

theorem tokBurnFrom_same {w w' : World} {t sp o amt : Nat} (h : tokBurnFrom w t sp o amt = .ok w') :
    Same w w' ∧ w'.bank = w.bank := by
  obtain ⟨T, al, _, _, _, _, _, rfl⟩ := tokBurnFrom_ok h; exact setTok_same _ _ _
theorem tokDecAllow_same {w w' : World} {t o s amt : Nat} (h : tokDecAllow w t o s amt = .ok w') :
    Same w w' ∧ w'.bank = w.bank := by
  obtain ⟨T, al, _, _, _, rfl⟩ := tokDecAllow_ok h; exact setTok_same _ _ _

theorem bal_tokBurnFrom {w w' : World} {t sp o amt : Nat} (h : tokBurnFrom w t sp o amt = .ok w')
    (a : Asset) (z : Nat) :
    bal w' a z = if a = .token t ∧ z = o then bal w a z - amt else bal w a z := by
  obtain ⟨T, al, hT, _, _, _, _, rfl⟩ := tokBurnFrom_ok h
  cases a with
  | native d => simp [bal, setTok]
  | token t' =>
    by_cases ht : t' = t
    · subst ht; by_cases hz : z = o <;> simp [bal, setTok, hT, hz]
    · simp [bal, setTok, ht]

theorem bal_tokDecAllow {w w' : World} {t o s amt : Nat} (h : tokDecAllow w t o s amt = .ok w') (a : Asset) (z : Nat) :
    bal w' a z = bal w a z := by
  obtain ⟨T, al, hT, _, _, rfl⟩ := tokDecAllow_ok h
  cases a with
  | native d => simp [bal, setTok]
  | token t' =>
    by_cases ht : t' = t
    · subst ht; simp [bal, setTok, hT]
    · simp [bal, setTok, ht]

theorem supply_tokBurnFrom {w w' : World} {t sp o amt : Nat} (h : tokBurnFrom w t sp o amt = .ok w') (u : Nat) :
    supply w' u = if u = t then supply w u - amt else supply w u := by
  obtain ⟨T, al, hT, _, _, _, _, rfl⟩ := tokBurnFrom_ok h
  by_cases hu : u = t
  · subst hu; simp [supply, setTok, hT]
  · simp [supply, setTok, hu]

theorem supply_tokDecAllow {w w' : World} {t o s amt : Nat} (h : tokDecAllow w t o s amt = .ok w') (u : Nat) :
    supply w' u = supply w u := by
  obtain ⟨T, al, hT, _, _, rfl⟩ := tokDecAllow_ok h
  by_cases hu : u = t
  · subst hu; simp [supply, setTok, hT]
  · simp [supply, setTok, hu]

theorem tokBurnFrom_sameToks {w w' : World} {t sp o amt : Nat} (h : tokBurnFrom w t sp o amt = .ok w') :
    SameToks w w' := by
  obtain ⟨T, al, hT, _, _, _, _, rfl⟩ := tokBurnFrom_ok h; exact sameToks_setTok hT
theorem tokDecAllow_sameToks {w w' : World} {t o s amt : Nat} (h : tokDecAllow w t o s amt = .ok w') :
    SameToks w w' := by
  obtain ⟨T, al, hT, _, _, rfl⟩ := tokDecAllow_ok h; exact sameToks_setTok hT

/-- `SendFrom` is a `TransferFrom` followed by the hook delivery, the receiver seeing the SPENDER as cw20 sender -/
theorem tokSendFrom_ok {name : Asset → String} {w w' : World} {t sp o d amt : Nat} {hk : Hook} {out : Out}
    (h : tokSendFrom name w t sp o d amt hk = .ok (w', out)) :
    ∃ w1, tokTransferFrom w t sp o d amt = .ok w1 ∧
      (((w.pair d).isSome ∧ pairReceive w1 d t sp amt hk = .ok (w', out)) ∨
       ((w.pair d).isSome = false ∧ d = w.router ∧ out = .none ∧ routerReceive name w1 sp hk = .ok w')) := by
  unfold tokSendFrom at h
  split at h
  · rename_i hp
    simp only [bind_ok_iff] at h
    obtain ⟨w1, h1, h2⟩ := h
    exact ⟨w1, h1, .inl ⟨hp, h2⟩⟩
  · rename_i hp
    split at h
    · rename_i hd
      simp only [bind_ok_iff, pure_ok_iff, Prod.mk.injEq] at h
      obtain ⟨w1, h1, w2, h2, rfl, rfl⟩ := h
      exact ⟨w1, h1, .inr ⟨by simpa using hp, hd, rfl, h2⟩⟩
    · cases h

/-! ### the router's entry points after address validation -/

/-- the router hook: the cw20 sender and the optional recipient are valid addresses, and the payload is a route -/
theorem routerReceive_ok {name : Asset → String} {w w' : World} {from_ : Nat} {hk : Hook}
    (h : routerReceive name w from_ hk = .ok w') :
    ∃ ops mn dst, hk = .routerOps ops mn dst ∧ w.badAddr from_ = false ∧ badTo w dst = false ∧
      routerSwapOps name w from_ ops mn dst = .ok w' := by
  unfold routerReceive at h
  split at h
  · cases h
  rename_i hf
  split at h
  · rename_i ops mn dst
    simp only [bind_ok_iff] at h
    obtain ⟨_, hv, h⟩ := h
    exact ⟨ops, mn, dst, rfl, by simpa using hf, validTo_ok_iff.mp hv, h⟩
  · cases h

theorem routerExec_swapOps_ok {name : Asset → String} {w w' : World} {s : Nat} {funds : List (Nat × Nat)}
    {ops : List (Asset × Asset)} {mn dst : Option Nat} (h : routerExec name w s funds (.swapOps ops mn dst) = .ok w') :
    ∃ w0, attach w s w.router funds = .ok w0 ∧ badTo w0 dst = false ∧ routerSwapOps name w0 s ops mn dst = .ok w' := by
  unfold routerExec at h
  simp only [bind_ok_iff] at h
  obtain ⟨w0, h0, _, hv, h⟩ := h
  exact ⟨w0, h0, validTo_ok_iff.mp hv, h⟩

theorem routerExec_swapOp_ok {name : Asset → String} {w w' : World} {s : Nat} {funds : List (Nat × Nat)}
    {o a : Asset} {dst : Option Nat} (h : routerExec name w s funds (.swapOp o a dst) = .ok w') :
    ∃ w0, attach w s w.router funds = .ok w0 ∧ badTo w0 dst = false ∧ routerHop w0 s o a dst = .ok w' := by
  unfold routerExec at h
  simp only [bind_ok_iff] at h
  obtain ⟨w0, h0, _, hv, h⟩ := h
  exact ⟨w0, h0, validTo_ok_iff.mp hv, h⟩

theorem routerExec_assertMin_ok {name : Asset → String} {w w' : World} {s : Nat} {funds : List (Nat × Nat)}
    {a : Asset} {prev mn rcv : Nat} (h : routerExec name w s funds (.assertMin a prev mn rcv) = .ok w') :
    ∃ w0, attach w s w.router funds = .ok w0 ∧ w0.badAddr rcv = false ∧
      routerAssertMin w0 s a prev mn rcv = .ok () ∧ w' = w0 := by
  unfold routerExec at h
  simp only [bind_ok_iff, pure_ok_iff] at h
  obtain ⟨w0, h0, _, hv, _, h1, h2⟩ := h
  exact ⟨w0, h0, validAddr_ok_iff.mp hv, h1, h2.symm⟩

theorem routerExec_receive_ok {name : Asset → String} {w w' : World} {s : Nat} {funds : List (Nat × Nat)}
    {from_ amount : Nat} {hk : Hook} (h : routerExec name w s funds (.receive from_ amount hk) = .ok w') :
    ∃ w0, attach w s w.router funds = .ok w0 ∧ routerReceive name w0 from_ hk = .ok w' := by
  unfold routerExec at h
  simp only [bind_ok_iff] at h
  obtain ⟨w0, h0, h⟩ := h
  exact ⟨w0, h0, h⟩

/-- cw20 `Send`: a transfer followed by the hook delivery to a pair or to the router -/
theorem tokSend_ok {name : Asset → String} {w w' : World} {t s d amt : Nat} {hk : Hook} {out : Out}
    (h : tokSend name w t s d amt hk = .ok (w', out)) :
    ((w.pair d).isSome ∧ tokSendPair w t s d amt hk = .ok (w', out)) ∨
    ((w.pair d).isSome = false ∧ d = w.router ∧ out = .none ∧
      ∃ w1, tokTransfer w t s d amt = .ok w1 ∧ routerReceive name w1 s hk = .ok w') := by
  unfold tokSend at h
  split at h
  · rename_i hp
    exact .inl ⟨hp, h⟩
  · rename_i hp
    split at h
    · rename_i hd
      simp only [bind_ok_iff, pure_ok_iff, Prod.mk.injEq] at h
      obtain ⟨w1, h1, w2, h2, rfl, rfl⟩ := h
      exact .inr ⟨by simpa using hp, hd, rfl, w1, h1, h2⟩
    · cases h

/-- `payout` of a single asset moves exactly `amt` (non-zero) from `src` to `dst` -/
theorem bal_payout {w w' : World} {src : Nat} {a : Asset} {dst amt : Nat} (h : payout w src a dst amt = .ok w')
    (b : Asset) (z : Nat) :
    amt ≠ 0 ∧ amt ≤ bal w a src ∧
    bal w' b z =
      if b = a then
        (if z = dst then (if z = src then bal w b z - amt else bal w b z) + amt
         else if z = src then bal w b z - amt else bal w b z)
      else bal w b z := by
  cases a with
  | native d =>
    obtain ⟨h0, h1⟩ := bankSend_single h
    refine ⟨h0, (bankMove1_ok h1).1, ?_⟩
    rw [bal_bankMove1 h1]
  | token t =>
    obtain ⟨T, hT, h0, hle, _⟩ := tokTransfer_ok h
    refine ⟨h0, by simp [bal, hT, hle], ?_⟩
    rw [bal_tokTransfer h]

theorem supply_payout {w w' : World} {src : Nat} {a : Asset} {dst amt : Nat} (h : payout w src a dst amt = .ok w')
    (t : Nat) : supply w' t = supply w t := by
  cases a with
  | native d => simp [supply, (bankSend_same h).2]
  | token u => exact supply_tokTransfer h t

end Halo
