/-
C01 / C06 — proofs about `computeSwap`: closed form of the gross output, the window in which it is
one above `⌊y·a/(x+a)⌋`, the partial forms of C01, the C06 bracket, monotonicity, range and the
exact success condition.
-/
import Halo.Proofs.Basic
import Halo.Formulas
import Halo.Spec
import Mathlib.Tactic.Linarith
import Mathlib.Tactic.Ring
import Mathlib.Tactic.Positivity
import Mathlib.Tactic.Zify
import Mathlib.Tactic.NormNum

namespace Halo.C01
open Halo

/-! ### extraction of the intermediate facts -/

/-- everything `computeSwap … = ok (n, s, k)` says, in raw form (`d` the decimal difference) -/
theorem raw {x y a c n s k : Nat} (h : computeSwap x y a c = .ok (n, s, k)) :
    x ≠ 0 ∧ x * y * E < U ∧ y * a * E < U ∧ x * y * E / (x + a) ≤ y * E ∧
    (y * E - x * y * E / (x + a)) / E ≤ y * a * E / x / E ∧
    (y * E - x * y * E / (x + a)) / E * c < U ∧
    (y * E - x * y * E / (x + a)) / E * c / E ≤ (y * E - x * y * E / (x + a)) / E ∧
    n = (y * E - x * y * E / (x + a)) / E - (y * E - x * y * E / (x + a)) / E * c / E ∧
    s = y * a * E / x / E - (y * E - x * y * E / (x + a)) / E ∧
    k = (y * E - x * y * E / (x + a)) / E * c / E ∧
    n < W ∧ s < W ∧ k < W := by
  unfold computeSwap at h
  simp only [bind_ok_iff, Uint.mul_ok, Dec.fromUint_ok, Uint.add_ok, Dec.fromRatio_ok, Dec.sub_ok,
    Uint.mulDec_ok, Uint.sub_ok, pure_ok_iff, Prod.mk.injEq] at h
  obtain ⟨cp, ⟨hcp, rfl⟩, askDec, ⟨hask, rfl⟩, sum, ⟨hsum, rfl⟩, q, ⟨hD, hq, rfl⟩,
    d, ⟨hqle, rfl⟩, gross, ⟨hd, rfl⟩, ya, ⟨hya, rfl⟩, r, ⟨hx, hr, rfl⟩, ideal, ⟨hr', rfl⟩,
    spread, ⟨hsp, rfl⟩, comm, ⟨hcomm, rfl⟩, ret, ⟨hret, rfl⟩, ret', hn, spread', hs, comm', hk,
    rfl, rfl, rfl⟩ := h
  simp only [Nat.one_mul] at *
  have hgU : (y * E - x * y * E / (x + a)) / E < U :=
    Nat.lt_of_le_of_lt (Nat.div_le_self _ _) hd
  have hn' := (toU128_ok (Nat.lt_of_le_of_lt (Nat.sub_le _ _) hgU)).1 hn
  have hs' := (toU128_ok (Nat.lt_of_le_of_lt (Nat.sub_le _ _)
    (Nat.lt_of_le_of_lt (Nat.div_le_self _ _) hr'))).1 hs
  have hk' := (toU128_ok (Nat.lt_of_le_of_lt (Nat.div_le_self _ _) hcomm)).1 hk
  obtain ⟨hn1, rfl⟩ := hn'
  obtain ⟨hs1, rfl⟩ := hs'
  obtain ⟨hk1, rfl⟩ := hk'
  exact ⟨hx, hq, hr, hqle, hsp, hcomm, hret, rfl, rfl, rfl, hn1, hs1, hk1⟩

/-! ### arithmetic -/

/-- the decimal difference is an exact quotient, so the gross output has a closed form -/
theorem gross_eq {x y a : Nat} (hD : 0 < x + a) :
    (y * E - x * y * E / (x + a)) / E = (y * a * E + x * y * E % (x + a)) / ((x + a) * E) := by
  have hdm := Nat.div_add_mod (x * y * E) (x + a)
  have hq : x * y * E / (x + a) ≤ y * E := by
    apply Nat.div_le_of_le_mul
    nlinarith [Nat.zero_le (a * (y * E))]
  have hd : (y * a * E + x * y * E % (x + a)) / (x + a) = y * E - x * y * E / (x + a) := by
    apply Nat.div_eq_of_eq_mul_left hD
    obtain ⟨t, ht⟩ := Nat.exists_eq_add_of_le hq
    rw [ht, Nat.add_sub_cancel_left]
    have e1 : y * a * E = a * (x * y * E / (x + a) + t) := by rw [← ht]; ring
    have e2 : x * y * E = x * (x * y * E / (x + a) + t) := by rw [← ht]; ring
    generalize x * y * E / (x + a) = q at *
    generalize x * y * E % (x + a) = ρ at *
    nlinarith
  rw [← hd, Nat.div_div_eq_div_mul]

theorem ideal_eq {x : Nat} (y a : Nat) : y * a * E / x / E = y * a / x := by
  rw [Nat.div_div_eq_div_mul, Nat.mul_div_mul_right _ _ E_pos]

/-- closed form of the gross output -/
def G (x y a : Nat) : Nat := (y * a * E + x * y * E % (x + a)) / ((x + a) * E)

/-- the closed form is `⌊y·a/(x+a)⌋`, plus one exactly on the window -/
theorem G_window {x y a : Nat} (hD : 0 < x + a) :
    G x y a = y * a / (x + a) + (if inWindow x y a then 1 else 0) := by
  unfold G
  have hE := E_pos
  have hρ := Nat.mod_lt (x * y * E) hD
  have hσ := Nat.mod_lt (y * a) hD
  have hdm := Nat.div_add_mod (y * a) (x + a)
  have hDE : 0 < (x + a) * E := Nat.mul_pos hD hE
  have hsplit : y * a * E + x * y * E % (x + a)
      = (y * a % (x + a) * E + x * y * E % (x + a)) + y * a / (x + a) * ((x + a) * E) := by
    generalize x * y * E % (x + a) = ρ at *
    generalize y * a % (x + a) = σ at *
    generalize y * a / (x + a) = g at *
    rw [← hdm]; ring
  rw [hsplit, Nat.add_mul_div_right _ _ hDE, Nat.add_comm]
  congr 1
  simp only [inWindow, decide_eq_true_eq]
  generalize x * y * E % (x + a) = ρ at *
  generalize y * a % (x + a) = σ at *
  have h1 : (σ + 1) * E ≤ (x + a) * E := Nat.mul_le_mul_right _ hσ
  have h2 : (x + a) * 1 ≤ (x + a) * E := Nat.mul_le_mul_left _ hE
  split
  · rename_i hw
    apply Nat.div_eq_of_lt_le
    · omega
    · rw [Nat.add_mul] at h1; omega
  · rename_i hw
    exact Nat.div_eq_of_lt (by omega)

/-- the window is empty for shallow pools.  The hypothesis `0 < x + a` cannot be dropped:
`inWindow 0 y 0 = true` (both remainders are `_ % 0`, and `0 * E ≤ 0`). -/
theorem window_needs_depth {x y a : Nat} (hD : 0 < x + a) (h : inWindow x y a = true) :
    E < x + a := by
  simp only [inWindow, decide_eq_true_eq] at h
  have hρ := Nat.mod_lt (x * y * E) hD
  have hσ := Nat.mod_lt (y * a) hD
  generalize x * y * E % (x + a) = ρ at *
  generalize y * a % (x + a) = σ at *
  have h1 : (σ + 1) * E ≤ (x + a) * E := Nat.mul_le_mul_right _ hσ
  rw [Nat.add_mul] at h1
  omega

/-- net output is monotone in the gross output for rates `≤ 1` -/
theorem net_mono {g g' c : Nat} (hc : c ≤ E) (h : g ≤ g') : g - g * c / E ≤ g' - g' * c / E := by
  obtain ⟨t, rfl⟩ := Nat.exists_eq_add_of_le h
  have h1 : (g + t) * c / E ≤ g * c / E + t := by
    rw [← Nat.add_mul_div_right _ _ E_pos]
    apply Nat.div_le_div_right
    nlinarith [Nat.mul_le_mul_left t hc]
  have h2 : g * c / E ≤ g := by
    apply Nat.div_le_of_le_mul
    nlinarith [Nat.mul_le_mul_left g hc]
  omega

/-- integer (cross-multiplied) form of  g(1-γ) - 1 < n < g(1-γ) + 1,  g = y a / D, γ = c / E -/
theorem c06_int (E D ya c cc G k n r : ℤ)
    (hE : 0 < E) (hD : 0 < D) (_hya : 0 ≤ ya) (hc0 : 0 ≤ c) (hcc0 : 0 ≤ cc) (hcE : c + cc = E)
    (hr0 : 0 ≤ r) (hr : r < D) (hG0 : 0 ≤ G)
    (hG1 : G * (D * E) ≤ ya * E + r) (hG2 : ya * E + r < (G + 1) * (D * E))
    (hk1 : k * E ≤ G * c) (hk2 : G * c < (k + 1) * E) (hn : n + k = G) :
    ya * cc < (n + 1) * (D * E) ∧ n * (D * E) < ya * cc + D * E := by
  have hn' : n = G - k := by linarith
  subst hn'
  constructor
  · have h1 : ya < (G + 1) * D := by
      by_contra h
      have h := not_lt.1 h
      have : (G + 1) * D * E ≤ ya * E := mul_le_mul_of_nonneg_right h hE.le
      nlinarith
    have h2 : G * cc ≤ (G - k) * E := by nlinarith
    have h3 : ya * cc ≤ (G + 1) * D * cc - cc := by nlinarith
    rcases eq_or_lt_of_le hcc0 with hz | hpos
    · rw [← hz]; simp
      have : 0 ≤ G - k := by nlinarith
      positivity
    · have h4 : ya * cc < (G + 1) * D * cc := by nlinarith
      have h5 : (G + 1) * D * cc = G * cc * D + D * cc := by ring
      have h6 : G * cc * D ≤ (G - k) * E * D := mul_le_mul_of_nonneg_right h2 hD.le
      have h7 : D * cc ≤ D * E := by nlinarith
      nlinarith
  · have h1 : (G - k) * E ≤ G * cc + E - 1 := by nlinarith
    have h2 : G * (D * E) * cc ≤ (ya * E + r) * cc := mul_le_mul_of_nonneg_right hG1 hcc0
    have h3 : r * cc ≤ r * E := by nlinarith
    have h4 : (G - k) * E * (D * E) ≤ (G * cc + E - 1) * (D * E) :=
      mul_le_mul_of_nonneg_right h1 (by positivity)
    have h5 : (G - k) * (D * E) * E < (ya * cc + D * E) * E := by nlinarith
    exact lt_of_mul_lt_mul_right h5 hE.le

theorem c06_nat {e D ya c cc g k n r : Nat}
    (hE : 0 < e) (hD : 0 < D) (hcE : c + cc = e) (hr : r < D)
    (hG1 : g * (D * e) ≤ ya * e + r) (hG2 : ya * e + r < (g + 1) * (D * e))
    (hk1 : k * e ≤ g * c) (hk2 : g * c < (k + 1) * e) (hn : n + k = g) :
    ya * cc < (n + 1) * (D * e) ∧ n * (D * e) < ya * cc + D * e := by
  have := c06_int (e : ℤ) D ya c cc g k n r (by exact_mod_cast hE) (by exact_mod_cast hD)
    (Int.natCast_nonneg _) (Int.natCast_nonneg _) (Int.natCast_nonneg _) (by exact_mod_cast hcE)
    (Int.natCast_nonneg _) (by exact_mod_cast hr) (Int.natCast_nonneg _)
    (by exact_mod_cast hG1) (by exact_mod_cast hG2) (by exact_mod_cast hk1)
    (by exact_mod_cast hk2) (by exact_mod_cast hn)
  exact_mod_cast this

/-! ### the facts in closed form -/

theorem facts {x y a c n s k : Nat} (h : computeSwap x y a c = .ok (n, s, k)) :
    x ≠ 0 ∧ x * y * E < U ∧ y * a * E < U ∧ G x y a ≤ y * a / x ∧ G x y a * c < U ∧
    G x y a * c / E ≤ G x y a ∧ n = G x y a - G x y a * c / E ∧ s = y * a / x - G x y a ∧
    k = G x y a * c / E ∧ n < W ∧ s < W ∧ k < W := by
  have hr := raw h
  have hx := hr.1
  rw [gross_eq (by omega : 0 < x + a), ideal_eq] at hr
  obtain ⟨h1, h2, h3, -, h5⟩ := hr
  exact ⟨h1, h2, h3, h5⟩

theorem c01_of_le {x y a n : Nat} (hx : x ≠ 0) (hn : n ≤ y * a / (x + a)) :
    Spec.c01 x y a n = true := by
  have hD : 0 < x + a := by omega
  simp only [Spec.c01, Bool.and_eq_true, Bool.or_eq_true, decide_eq_true_eq]
  constructor
  · exact Nat.le_trans (Nat.mul_le_mul_right _ hn) (Nat.div_mul_le_self _ _)
  · by_cases hy : y = 0
    · exact Or.inl hy
    · right
      refine Nat.lt_of_le_of_lt hn ?_
      rw [Nat.div_lt_iff_lt_mul hD]
      have : 0 < y := Nat.pos_of_ne_zero hy
      have : 0 < x := Nat.pos_of_ne_zero hx
      nlinarith

/-! ### the lemmas the property files use -/

theorem pos_of_ok {x y a c n s k : Nat} (h : computeSwap x y a c = .ok (n, s, k)) : 0 < x + a := by
  have hx := (raw h).1
  omega

theorem gross_closed_form {x y a c n s k : Nat}
    (h : computeSwap x y a c = .ok (n, s, k)) :
    n + k = (y * a * E + x * y * E % (x + a)) / ((x + a) * E) := by
  obtain ⟨-, -, -, -, -, h6, rfl, -, rfl, -⟩ := facts h
  show _ = G x y a
  omega

theorem gross_window {x y a c n s k : Nat}
    (h : computeSwap x y a c = .ok (n, s, k)) :
    n + k = y * a / (x + a) + (if inWindow x y a then 1 else 0) := by
  have hx := (facts h).1
  rw [gross_closed_form h]
  exact G_window (by omega)

theorem c01_of_not_window {x y a c n s k : Nat}
    (h : computeSwap x y a c = .ok (n, s, k)) (hw : inWindow x y a = false) :
    Spec.c01 x y a n = true := by
  have hx := (facts h).1
  have hg := gross_window h
  rw [hw] at hg
  simp only [Bool.false_eq_true, if_false, Nat.add_zero] at hg
  exact c01_of_le hx (by omega)

/-- C01 for shallow pools -/
theorem c01_of_shallow {x y a c n s k : Nat}
    (h : computeSwap x y a c = .ok (n, s, k)) (hd : x + a ≤ E) :
    Spec.c01 x y a n = true :=
  c01_of_not_window h (by
    cases hw : inWindow x y a
    · rfl
    · exact absurd (window_needs_depth (pos_of_ok h) hw) (by omega))

theorem c01_of_commission {x y a c n s k : Nat}
    (h : computeSwap x y a c = .ok (n, s, k)) (hk : 1 ≤ k) :
    Spec.c01 x y a n = true := by
  have hx := (facts h).1
  have hg := gross_window h
  refine c01_of_le hx ?_
  split at hg <;> omega

theorem violation_is_window {x y a c n s k : Nat}
    (h : computeSwap x y a c = .ok (n, s, k)) (hv : Spec.c01 x y a n = false) :
    inWindow x y a = true ∧ n + k = y * a / (x + a) + 1 := by
  cases hw : inWindow x y a
  · rw [c01_of_not_window h hw] at hv; exact absurd hv (by decide)
  · have hg := gross_window h
    rw [hw] at hg
    exact ⟨rfl, by simpa using hg⟩

theorem c01Reserves_of_not_window {x y a c n s k : Nat}
    (h : computeSwap x y a c = .ok (n, s, k)) (hw : inWindow x y a = false) (hy : 1 ≤ y) :
    Spec.c01Reserves x y (x + a) (y - n) = true := by
  have hc := c01_of_not_window h hw
  simp only [Spec.c01, Bool.and_eq_true, Bool.or_eq_true, decide_eq_true_eq] at hc
  simp only [Spec.c01Reserves, Bool.and_eq_true, decide_eq_true_eq]
  obtain ⟨h1, h2⟩ := hc
  have hny : n < y := by omega
  obtain ⟨t, rfl⟩ := Nat.exists_eq_add_of_lt hny
  have e : n + t + 1 - n = t + 1 := by omega
  rw [e]
  constructor
  · nlinarith
  · omega

theorem c06_of_ok {x y a c n s k : Nat}
    (h : computeSwap x y a c = .ok (n, s, k)) (hc : c ≤ E) :
    Spec.c06 x y a c n s k = true := by
  obtain ⟨hx, -, -, h4, -, h6, hn, hs, hk, -⟩ := facts h
  have hD : 0 < x + a := by omega
  have hDE : 0 < (x + a) * E := Nat.mul_pos hD E_pos
  have hnk : n + k = G x y a := by omega
  have hG1 : G x y a * ((x + a) * E) ≤ y * a * E + x * y * E % (x + a) :=
    Nat.div_mul_le_self _ _
  have hG2 : y * a * E + x * y * E % (x + a) < (G x y a + 1) * ((x + a) * E) := by
    have := Nat.lt_mul_div_succ (y * a * E + x * y * E % (x + a)) hDE
    rw [Nat.mul_comm ((x + a) * E)] at this
    exact this
  have hk1 : k * E ≤ G x y a * c := by rw [hk]; exact Nat.div_mul_le_self _ _
  have hk2 : G x y a * c < (k + 1) * E := by
    have := Nat.lt_mul_div_succ (G x y a * c) E_pos
    rw [Nat.mul_comm E, ← hk] at this
    exact this
  have hb := c06_nat E_pos hD (Nat.add_sub_cancel' hc) (Nat.mod_lt (x * y * E) hD)
    hG1 hG2 hk1 hk2 hnk
  simp only [Spec.c06, Bool.and_eq_true, decide_eq_true_eq]
  refine ⟨⟨⟨?_, ?_⟩, hb.2⟩, hb.1⟩
  · rw [hnk]; exact hk
  · rw [hnk, hs]; omega

theorem mono {x y a a' c n s k n' s' k' : Nat}
    (h : computeSwap x y a c = .ok (n, s, k)) (h' : computeSwap x y a' c = .ok (n', s', k'))
    (hc : c ≤ E) (ha : a ≤ a') : n ≤ n' := by
  obtain ⟨hx, -, -, -, -, -, -, rfl, -⟩ := raw h
  obtain ⟨-, -, -, -, -, -, -, rfl, -⟩ := raw h'
  apply net_mono hc
  apply Nat.div_le_div_right
  apply Nat.sub_le_sub_left
  exact Nat.div_le_div_left (by omega) (by omega)

theorem range {x y a c n s k : Nat}
    (h : computeSwap x y a c = .ok (n, s, k)) : n < W ∧ s < W ∧ k < W := by
  obtain ⟨-, -, -, -, -, -, -, -, -, -, h⟩ := raw h
  exact h

/-- sufficient conditions for success, in raw form -/
theorem ok_of_raw {x y a c : Nat} (hx : x ≠ 0) (hxa : x + a < U)
    (h1 : x * y * E < U) (h2 : y * a * E < U)
    (h3 : (y * E - x * y * E / (x + a)) / E ≤ y * a * E / x / E)
    (h4 : (y * E - x * y * E / (x + a)) / E * c < U)
    (h5 : (y * E - x * y * E / (x + a)) / E * c / E ≤ (y * E - x * y * E / (x + a)) / E)
    (h6 : (y * E - x * y * E / (x + a)) / E - (y * E - x * y * E / (x + a)) / E * c / E < W)
    (h7 : y * a * E / x / E - (y * E - x * y * E / (x + a)) / E < W)
    (h8 : (y * E - x * y * E / (x + a)) / E * c / E < W) :
    computeSwap x y a c = .ok
      ((y * E - x * y * E / (x + a)) / E - (y * E - x * y * E / (x + a)) / E * c / E,
       y * a * E / x / E - (y * E - x * y * E / (x + a)) / E,
       (y * E - x * y * E / (x + a)) / E * c / E) := by
  have hE := E_pos
  have hx0 : 0 < x := Nat.pos_of_ne_zero hx
  have hD : 0 < x + a := by omega
  have hyE : y * E ≤ x * y * E := by
    rw [Nat.mul_assoc]; exact Nat.le_mul_of_pos_left _ hx0
  have hq : x * y * E / (x + a) ≤ y * E := by
    apply Nat.div_le_of_le_mul
    nlinarith [Nat.zero_le (a * (y * E))]
  have hyU : y * E < U := Nat.lt_of_le_of_lt hyE h1
  have hdU : y * E - x * y * E / (x + a) < U := Nat.lt_of_le_of_lt (Nat.sub_le _ _) hyU
  have hgU : (y * E - x * y * E / (x + a)) / E < U :=
    Nat.lt_of_le_of_lt (Nat.div_le_self _ _) hdU
  have hrU : y * a * E / x < U := Nat.lt_of_le_of_lt (Nat.div_le_self _ _) h2
  have hiU : y * a * E / x / E < U := Nat.lt_of_le_of_lt (Nat.div_le_self _ _) hrU
  unfold computeSwap
  simp only [bind_ok_iff, Uint.mul_ok, Dec.fromUint_ok, Uint.add_ok, Dec.fromRatio_ok, Dec.sub_ok,
    Uint.mulDec_ok, Uint.sub_ok, pure_ok_iff, Prod.mk.injEq, Nat.one_mul]
  refine ⟨_, ⟨?_, rfl⟩, _, ⟨?_, rfl⟩, _, ⟨hxa, rfl⟩, _, ⟨by omega, h1, rfl⟩, _, ⟨hq, rfl⟩,
    _, ⟨hdU, rfl⟩, _, ⟨?_, rfl⟩, _, ⟨hx, h2, rfl⟩, _, ⟨hrU, rfl⟩, _, ⟨h3, rfl⟩, _, ⟨h4, rfl⟩,
    _, ⟨h5, rfl⟩, _, (toU128_ok (Nat.lt_of_le_of_lt (Nat.sub_le _ _) hgU)).2 ⟨h6, rfl⟩,
    _, (toU128_ok (Nat.lt_of_le_of_lt (Nat.sub_le _ _) hiU)).2 ⟨h7, rfl⟩,
    _, (toU128_ok (Nat.lt_of_le_of_lt (Nat.div_le_self _ _) h4)).2 ⟨h8, rfl⟩, rfl, rfl, rfl⟩
  · exact Nat.lt_of_le_of_lt (Nat.le_mul_of_pos_right _ hE) h1
  · exact hyU
  · exact Nat.lt_of_le_of_lt (Nat.le_mul_of_pos_right _ hE) h2

theorem ok_iff {x y a c : Nat} (hx : x < W) (_hy : y < W) (ha : a < W) :
    (∃ r, computeSwap x y a c = .ok r) ↔
      x ≠ 0 ∧ x * y * E < U ∧ y * a * E < U ∧
      (let G := (y * a * E + x * y * E % (x + a)) / ((x + a) * E)
       G ≤ y * a / x ∧ G * c < U ∧ G * c / E ≤ G ∧ y * a / x - G < W ∧ G - G * c / E < W ∧ G * c / E < W) := by
  constructor
  · rintro ⟨⟨n, s, k⟩, h⟩
    obtain ⟨h1, h2, h3, h4, h5, h6, rfl, rfl, rfl, h7, h8, h9⟩ := facts h
    exact ⟨h1, h2, h3, h4, h5, h6, h8, h7, h9⟩
  · rintro ⟨h1, h2, h3, h4, h5, h6, h7, h8, h9⟩
    have hD : 0 < x + a := by omega
    have hxa : x + a < U := by
      have : W + W ≤ U := by decide
      omega
    have hg := gross_eq (y := y) hD
    have hi := ideal_eq (x := x) y a
    refine ⟨_, ok_of_raw h1 hxa h2 h3 ?_ ?_ ?_ ?_ ?_ ?_⟩
    · rw [hg, hi]; exact h4
    · rw [hg]; exact h5
    · rw [hg]; exact h6
    · rw [hg]; exact h8
    · rw [hg, hi]; exact h7
    · rw [hg]; exact h9

end Halo.C01
