/-
Helper lemmas shared by all proofs: the `Except` bind, and one `ok`-inversion lemma per primitive
of `Halo/Num.lean`.  Core Lean only.
-/
import Halo.Num

namespace Halo

@[simp] theorem bind_ok_iff {α β} (x : M α) (f : α → M β) (b : β) :
    (x >>= f) = .ok b ↔ ∃ a, x = .ok a ∧ f a = .ok b := by
  cases x <;> simp [bind, Except.bind]

@[simp] theorem bind_error_iff {α β} (x : M α) (f : α → M β) (e : Err) :
    (x >>= f) = .error e ↔ x = .error e ∨ ∃ a, x = .ok a ∧ f a = .error e := by
  cases x <;> simp [bind, Except.bind]

@[simp] theorem pure_ok_iff {α} (a b : α) : (pure a : M α) = .ok b ↔ a = b := by
  simp [pure, Except.pure]

@[simp] theorem pure_ne_error {α} (a : α) (e : Err) : (pure a : M α) ≠ .error e := by
  simp [pure, Except.pure]

theorem E_pos : 0 < E := by decide
theorem E_eq : E = 10 ^ 18 := by decide
theorem U_eq : U = 2 ^ 256 := rfl
theorem W_eq : W = 2 ^ 128 := rfl
theorem L_eq : L = 2 ^ 64 := rfl
theorem W_lt_U : W < U := by decide
theorem W_mul_W : W * W = U := by decide
theorem E_lt_L : E < L := by decide
theorem L_pos : 0 < L := by decide
theorem W_pos : 0 < W := by decide
theorem U_pos : 0 < U := by decide
theorem W_eq_LL : W = L * L := by decide
theorem U_eq_L4 : U = L * L * L * L := by decide

namespace u256
theorem add_ok {a b r : Nat} : add a b = .ok r ↔ a + b < U ∧ r = a + b := by
  unfold add; split <;> simp_all [eq_comm] <;> (intros; omega)
theorem sub_ok {a b r : Nat} : sub a b = .ok r ↔ b ≤ a ∧ r = a - b := by
  unfold sub; split <;> simp_all [eq_comm] <;> (intros; omega)
theorem mul_ok {a b r : Nat} : mul a b = .ok r ↔ a * b < U ∧ r = a * b := by
  unfold mul; split <;> simp_all [eq_comm] <;> (intros; omega)
theorem div_ok {a b r : Nat} : div a b = .ok r ↔ b ≠ 0 ∧ r = a / b := by
  unfold div; split <;> simp_all [eq_comm] <;> (intros; omega)
theorem rem_ok {a b r : Nat} : rem a b = .ok r ↔ b ≠ 0 ∧ r = a % b := by
  unfold rem; split <;> simp_all [eq_comm] <;> (intros; omega)
end u256

namespace Dec
theorem fromRatio_ok {n d r : Nat} : fromRatio n d = .ok r ↔ d ≠ 0 ∧ n * E < U ∧ r = n * E / d := by
  unfold fromRatio
  split
  · simp_all
  · simp only [bind_ok_iff, u256.mul_ok, u256.div_ok]
    constructor
    · rintro ⟨p, ⟨h1, rfl⟩, h2, rfl⟩; exact ⟨h2, h1, rfl⟩
    · rintro ⟨h1, h2, rfl⟩; exact ⟨_, ⟨h2, rfl⟩, h1, rfl⟩
theorem fromUint_ok {v r : Nat} : fromUint v = .ok r ↔ v * E < U ∧ r = v * E := u256.mul_ok
theorem add_ok {a b r : Nat} : add a b = .ok r ↔ a + b < U ∧ r = a + b := u256.add_ok
theorem sub_ok {a b r : Nat} : sub a b = .ok r ↔ b ≤ a ∧ r = a - b := by
  unfold sub; split <;> simp_all [eq_comm] <;> (intros; omega)
theorem mul_ok {a b r : Nat} : mul a b = .ok r ↔ a * b < U ∧ r = a * b / E := by
  unfold mul
  simp only [bind_ok_iff, u256.mul_ok, u256.div_ok]
  constructor
  · rintro ⟨p, ⟨h1, rfl⟩, _, rfl⟩; exact ⟨h1, rfl⟩
  · rintro ⟨h1, rfl⟩; exact ⟨_, ⟨h1, rfl⟩, by decide, rfl⟩
theorem div_ok {a b r : Nat} : div a b = .ok r ↔ b ≠ 0 ∧ a * E < U ∧ r = a * E / b := by
  unfold div
  split
  · simp_all
  · simp only [bind_ok_iff, u256.mul_ok, u256.div_ok]
    constructor
    · rintro ⟨p, ⟨h1, rfl⟩, h2, rfl⟩; exact ⟨h2, h1, rfl⟩
    · rintro ⟨h1, h2, rfl⟩; exact ⟨_, ⟨h2, rfl⟩, h1, rfl⟩
end Dec

namespace Uint
theorem add_ok {a b r : Nat} : add a b = .ok r ↔ a + b < U ∧ r = a + b := u256.add_ok
theorem sub_ok {a b r : Nat} : sub a b = .ok r ↔ b ≤ a ∧ r = a - b := by
  unfold sub; split <;> simp_all [eq_comm] <;> (intros; omega)
theorem mul_ok {a b r : Nat} : mul a b = .ok r ↔ a * b < U ∧ r = a * b := by
  unfold mul
  split
  · rename_i h
    have h0 : a * b = 0 := by rcases h with h | h <;> simp [h]
    simp [h0, eq_comm, U_pos]
  · exact u256.mul_ok
theorem mulRatio_ok {u n d r : Nat} :
    mulRatio u n d = .ok r ↔ d ≠ 0 ∧ u * n < U ∧ r = u * n / d := by
  unfold mulRatio
  split
  · simp_all
  · simp only [bind_ok_iff, u256.mul_ok, u256.div_ok]
    constructor
    · rintro ⟨p, ⟨h1, rfl⟩, h2, rfl⟩; exact ⟨h2, h1, rfl⟩
    · rintro ⟨h1, h2, rfl⟩; exact ⟨_, ⟨h2, rfl⟩, h1, rfl⟩
theorem mulDec_ok {u d r : Nat} : mulDec u d = .ok r ↔ u * d < U ∧ r = u * d / E := by
  unfold mulDec
  split
  · rename_i h
    have h0 : u * d = 0 := by rcases h with h | h <;> simp [h]
    simp [h0, eq_comm, U_pos]
  · rw [mulRatio_ok]
    constructor
    · rintro ⟨_, h, rfl⟩; exact ⟨h, rfl⟩
    · rintro ⟨h, rfl⟩; exact ⟨by decide, h, rfl⟩
theorem divDec_ok {u d r : Nat} : divDec u d = .ok r ↔ d ≠ 0 ∧ u * E < U ∧ r = u * E / d := by
  unfold divDec
  split
  · simp_all
  · split
    · rename_i h0 hu; subst hu; simp [eq_comm, U_pos, h0]
    · rw [mulRatio_ok]
end Uint

namespace Cw
theorem checkedSub_ok {a b r : Nat} : checkedSub a b = .ok r ↔ b ≤ a ∧ r = a - b := by
  unfold checkedSub; split <;> simp_all [eq_comm] <;> (intros; omega)
theorem checkedMul_ok {a b r : Nat} : checkedMul a b = .ok r ↔ a * b < W ∧ r = a * b := by
  unfold checkedMul; split <;> simp_all [eq_comm] <;> (intros; omega)
theorem mulRatio_ok {u n d r : Nat} :
    mulRatio u n d = .ok r ↔ d ≠ 0 ∧ u * n / d < W ∧ r = u * n / d := by
  unfold mulRatio
  split
  · simp_all
  · split <;> simp_all [eq_comm] <;> (intros; omega)
theorem decFromRatio_ok {n d r : Nat} :
    decFromRatio n d = .ok r ↔ d ≠ 0 ∧ n * E / d < W ∧ r = n * E / d := mulRatio_ok
theorem mulDec_ok {u d r : Nat} : mulDec u d = .ok r ↔ u * d / E < W ∧ r = u * d / E := by
  unfold mulDec
  split
  · rename_i h
    have h0 : u * d = 0 := by rcases h with h | h <;> simp [h]
    simp [h0, eq_comm, W_pos]
  · rw [mulRatio_ok]
    constructor
    · rintro ⟨_, h, rfl⟩; exact ⟨h, rfl⟩
    · rintro ⟨h, rfl⟩; exact ⟨by decide, h, rfl⟩
theorem nativeMul_ok {a b r : Nat} : nativeMul a b = .ok r ↔ a * b < W ∧ r = a * b := by
  unfold nativeMul; split <;> simp_all [eq_comm] <;> (intros; omega)
theorem pow10u64_ok {k r : Nat} : pow10u64 k = .ok r ↔ 10 ^ k < L ∧ r = 10 ^ k := by
  unfold pow10u64; split <;> simp_all [eq_comm] <;> (intros; omega)
end Cw

end Halo

namespace Halo

/-- the limb decomposition is faithful below `2^256` -/
theorem Limbs.ofNat_value {n : Nat} (h : n < U) : (Limbs.ofNat n).value = n := by
  unfold Limbs.ofNat Limbs.value
  have hL : L = 18446744073709551616 := by decide
  have hU : U = 18446744073709551616 * 18446744073709551616 * 18446744073709551616 * 18446744073709551616 := by decide
  simp only [hL] at *
  rw [hU] at h
  omega

theorem Limbs.ofNat_wf (n : Nat) : (Limbs.ofNat n).wf := by
  unfold Limbs.ofNat Limbs.wf
  have hL : 0 < L := L_pos
  exact ⟨Nat.mod_lt _ hL, Nat.mod_lt _ hL, Nat.mod_lt _ hL, Nat.mod_lt _ hL⟩

/-- `From<Uint256> for u128`: succeeds exactly when the value fits in 128 bits, and then preserves it -/
theorem toU128_ok {n r : Nat} (h : n < U) : toU128 n = .ok r ↔ n < W ∧ r = n := by
  unfold toU128 Limbs.toU128 Limbs.ofNat
  have hL : L = 18446744073709551616 := by decide
  have hW : W = 18446744073709551616 * 18446744073709551616 := by decide
  have hU : U = 18446744073709551616 * 18446744073709551616 * 18446744073709551616 * 18446744073709551616 := by decide
  simp only [hL, hW] at *
  rw [hU] at h
  split
  · simp only [Except.ok.injEq]; omega
  · simp only [reduceCtorEq, false_iff]; omega

theorem ofU128_eq (a : Nat) : ofU128 a = a := by
  unfold ofU128 Limbs.ofU128 Limbs.splitU128 Limbs.value
  have hL : L = 18446744073709551616 := by decide
  simp only [hL]
  omega

end Halo
