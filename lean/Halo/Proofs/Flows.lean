/-
Flows — a trace relation over the ledger primitives, finer than `C07.Moves`: `Tr S Mn N w w'` says that `w'`
is reached from `w` by ledger primitives whose *paying* accounts (bank / cw20 source, burner) lie in `S` and
whose mints are sent by contracts in `Mn`, interleaved with quiet steps that change no balance and no supply,
keep every cw20 contract with its minter, keep the router and every pair's assets and LP token, and create
pair contracts only at addresses in `N`.

  * consequences, by induction on the relation: `Tr.keep` (an account outside `S` never loses anything),
    `Tr.supply_le` (the supply of a token whose minter is outside `Mn` never grows), `Tr.stat`,
  * one lemma per handler up to `exec_tr`.
Used by `Halo/Proofs/C03W.lean`.  Core Lean only.
-/
import Halo.Inv
import Halo.Proofs.C02
import Halo.Proofs.C14
import Halo.Proofs.C07
import Halo.Proofs.Liquidity

namespace Halo.Flows
open Halo

/-! ### the static part -/

/-- every cw20 contract persists, with its minter -/
def TokKeep (w w' : World) : Prop :=
  ∀ t T, w.tok t = some T → ∃ T', w'.tok t = some T' ∧ T'.minter = T.minter

theorem TokKeep.refl (w : World) : TokKeep w w := fun _ T h => ⟨T, h, rfl⟩
theorem TokKeep.trans {a b c : World} (h1 : TokKeep a b) (h2 : TokKeep b c) : TokKeep a c := by
  intro t T hT
  obtain ⟨T1, hT1, m1⟩ := h1 t T hT
  obtain ⟨T2, hT2, m2⟩ := h2 t T1 hT1
  exact ⟨T2, hT2, m2.trans m1⟩

theorem tokKeep_of_eq {w w' : World} (h : w'.tok = w.tok) : TokKeep w w' :=
  fun t T hT => ⟨T, by rw [h]; exact hT, rfl⟩

theorem tokKeep_setTok {w : World} {t : Nat} {T T' : Token} (hT : w.tok t = some T) (hm : T'.minter = T.minter) :
    TokKeep w (setTok w t T') := by
  intro u U hU
  by_cases hu : u = t
  · subst hu
    rw [hT] at hU
    injection hU with hU
    subst hU
    exact ⟨T', by simp [setTok], hm⟩
  · exact ⟨U, by simp [setTok, hu, hU], rfl⟩

/-- contract states evolve benignly: cw20 contracts persist with their minter, the router is fixed, pairs keep
their assets and LP token, and pairs appear only at addresses in `N` -/
structure Stat (N : Nat → Prop) (w w' : World) : Prop where
  toks : TokKeep w w'
  router : w'.router = w.router
  pairSome : ∀ q P, w.pair q = some P → ∃ P', w'.pair q = some P' ∧ P'.a0 = P.a0 ∧ P'.a1 = P.a1 ∧ P'.lp = P.lp
  pairNone : ∀ q, ¬ N q → w.pair q = none → w'.pair q = none

theorem Stat.refl (N : Nat → Prop) (w : World) : Stat N w w :=
  ⟨TokKeep.refl w, rfl, fun _ P h => ⟨P, h, rfl, rfl, rfl⟩, fun _ _ h => h⟩

theorem Stat.trans {N : Nat → Prop} {a b c : World} (h1 : Stat N a b) (h2 : Stat N b c) : Stat N a c := by
  refine ⟨h1.toks.trans h2.toks, h2.router.trans h1.router, ?_, ?_⟩
  · intro q P hP
    obtain ⟨P1, hP1, e0, e1, e2⟩ := h1.pairSome q P hP
    obtain ⟨P2, hP2, f0, f1, f2⟩ := h2.pairSome q P1 hP1
    exact ⟨P2, hP2, f0.trans e0, f1.trans e1, f2.trans e2⟩
  · intro q hq h
    exact h2.pairNone q hq (h1.pairNone q hq h)

theorem Stat.mono {N N' : Nat → Prop} {w w' : World} (h : Stat N w w') (hN : ∀ q, N q → N' q) : Stat N' w w' :=
  ⟨h.toks, h.router, h.pairSome, fun q hq hn => h.pairNone q (fun e => hq (hN q e)) hn⟩

theorem stat_of_same {N : Nat → Prop} {w w' : World} (hs : Same w w') (ht : TokKeep w w') : Stat N w w' :=
  ⟨ht, hs.router, fun q P h => ⟨P, by rw [hs.pair]; exact h, rfl, rfl, rfl⟩, fun q _ h => by rw [hs.pair]; exact h⟩

theorem stat_of_eq {N : Nat → Prop} {w w' : World} (ht : w'.tok = w.tok) (hp : w'.pair = w.pair)
    (hr : w'.router = w.router) : Stat N w w' :=
  ⟨tokKeep_of_eq ht, hr, fun q P h => ⟨P, by rw [hp]; exact h, rfl, rfl, rfl⟩, fun q _ h => by rw [hp]; exact h⟩

section prims
variable {N : Nat → Prop}

theorem stat_bankMove1 {w w' : World} {src dst d amt : Nat} (h : bankMove1 w src dst d amt = .ok w') : Stat N w w' :=
  stat_of_same (bankMove1_same h).1 (tokKeep_of_eq (bankMove1_same h).2)

theorem stat_tokTransfer {w w' : World} {t src dst amt : Nat} (h : tokTransfer w t src dst amt = .ok w') :
    Stat N w w' := by
  obtain ⟨T, hT, _, _, rfl⟩ := tokTransfer_ok h
  exact stat_of_same (setTok_same _ _ _).1 (tokKeep_setTok hT rfl)

theorem stat_tokTransferFrom {w w' : World} {t sp o dst amt : Nat} (h : tokTransferFrom w t sp o dst amt = .ok w') :
    Stat N w w' := by
  obtain ⟨T, al, hT, _, _, _, rfl⟩ := tokTransferFrom_ok h
  exact stat_of_same (setTok_same _ _ _).1 (tokKeep_setTok hT rfl)

theorem stat_tokMint {w w' : World} {t s dst amt : Nat} (h : tokMint w t s dst amt = .ok w') : Stat N w w' := by
  obtain ⟨T, hT, _, _, _, rfl⟩ := tokMint_ok h
  exact stat_of_same (setTok_same _ _ _).1 (tokKeep_setTok hT rfl)

theorem stat_tokBurn {w w' : World} {t s amt : Nat} (h : tokBurn w t s amt = .ok w') : Stat N w w' := by
  obtain ⟨T, hT, _, _, _, rfl⟩ := tokBurn_ok h
  exact stat_of_same (setTok_same _ _ _).1 (tokKeep_setTok hT rfl)

theorem stat_tokIncAllow {w w' : World} {t o s amt : Nat} (h : tokIncAllow w t o s amt = .ok w') : Stat N w w' := by
  obtain ⟨T, hT, _, rfl⟩ := tokIncAllow_ok h
  exact stat_of_same (setTok_same _ _ _).1 (tokKeep_setTok hT rfl)

theorem stat_tokBurnFrom {w w' : World} {t sp o amt : Nat} (h : tokBurnFrom w t sp o amt = .ok w') :
    Stat N w w' := by
  obtain ⟨T, al, hT, _, _, _, _, rfl⟩ := tokBurnFrom_ok h
  exact stat_of_same (setTok_same _ _ _).1 (tokKeep_setTok hT rfl)

theorem stat_tokDecAllow {w w' : World} {t o s amt : Nat} (h : tokDecAllow w t o s amt = .ok w') : Stat N w w' := by
  obtain ⟨T, al, hT, _, _, rfl⟩ := tokDecAllow_ok h
  exact stat_of_same (setTok_same _ _ _).1 (tokKeep_setTok hT rfl)

end prims

/-! ### the relation -/

inductive Tr (S Mn N : Nat → Prop) : World → World → Prop
  | refl (w : World) : Tr S Mn N w w
  | trans {a b c : World} : Tr S Mn N a b → Tr S Mn N b c → Tr S Mn N a c
  | bank {w w' : World} {src dst d amt : Nat} :
      S src → bankMove1 w src dst d amt = .ok w' → Tr S Mn N w w'
  | xfer {w w' : World} {t src dst amt : Nat} :
      S src → tokTransfer w t src dst amt = .ok w' → Tr S Mn N w w'
  | xferFrom {w w' : World} {t sp owner dst amt : Nat} :
      S owner → tokTransferFrom w t sp owner dst amt = .ok w' → Tr S Mn N w w'
  | mint {w w' : World} {t sd dst amt : Nat} :
      Mn sd → tokMint w t sd dst amt = .ok w' → Tr S Mn N w w'
  | burn {w w' : World} {t sd amt : Nat} :
      S sd → tokBurn w t sd amt = .ok w' → Tr S Mn N w w'
  | incAllow {w w' : World} {t o sp amt : Nat} :
      tokIncAllow w t o sp amt = .ok w' → Tr S Mn N w w'
  | burnFrom {w w' : World} {t sp owner amt : Nat} :
      S owner → tokBurnFrom w t sp owner amt = .ok w' → Tr S Mn N w w'
  | decAllow {w w' : World} {t o sp amt : Nat} :
      tokDecAllow w t o sp amt = .ok w' → Tr S Mn N w w'
  | quiet {w w' : World} :
      (∀ a z, bal w' a z = bal w a z) → (∀ t, supply w' t = supply w t) → Stat N w w' → Tr S Mn N w w'

namespace Tr

variable {S Mn N : Nat → Prop} {w w' : World}

theorem static (hb : w'.bank = w.bank) (ht : w'.tok = w.tok) (hs : Stat N w w') : Tr S Mn N w w' :=
  .quiet (C07.bal_of_eq hb ht) (C07.supply_of_tok_eq ht) hs

theorem stat (h : Tr S Mn N w w') : Stat N w w' := by
  induction h with
  | refl w => exact Stat.refl _ _
  | trans _ _ ih1 ih2 => exact ih1.trans ih2
  | bank _ h => exact stat_bankMove1 h
  | xfer _ h => exact stat_tokTransfer h
  | xferFrom _ h => exact stat_tokTransferFrom h
  | mint _ h => exact stat_tokMint h
  | burn _ h => exact stat_tokBurn h
  | incAllow h => exact stat_tokIncAllow h
  | burnFrom _ h => exact stat_tokBurnFrom h
  | decAllow h => exact stat_tokDecAllow h
  | quiet _ _ hs => exact hs

/-- an account that is not a source never loses anything, in any asset -/
theorem keep (h : Tr S Mn N w w') : ∀ a z, ¬ S z → bal w a z ≤ bal w' a z := by
  induction h with
  | refl w => intro a z _; exact Nat.le_refl _
  | trans _ _ ih1 ih2 => intro a z hz; exact Nat.le_trans (ih1 a z hz) (ih2 a z hz)
  | @bank w w' src dst d amt hs h =>
    intro a z hz
    have h1 : z ≠ src := fun e => hz (e ▸ hs)
    rw [bal_bankMove1 h]
    simp only [if_neg h1]
    split
    · split <;> omega
    · exact Nat.le_refl _
  | @xfer w w' t src dst amt hs h =>
    intro a z hz
    have h1 : z ≠ src := fun e => hz (e ▸ hs)
    rw [bal_tokTransfer h]
    simp only [if_neg h1]
    split
    · split <;> omega
    · exact Nat.le_refl _
  | @xferFrom w w' t sp owner dst amt hs h =>
    intro a z hz
    have h1 : z ≠ owner := fun e => hz (e ▸ hs)
    rw [bal_tokTransferFrom h]
    simp only [if_neg h1]
    split
    · split <;> omega
    · exact Nat.le_refl _
  | @mint w w' t sd dst amt _ h =>
    intro a z _
    rw [bal_tokMint h]
    split
    · omega
    · exact Nat.le_refl _
  | @burn w w' t sd amt hs h =>
    intro a z hz
    have h1 : z ≠ sd := fun e => hz (e ▸ hs)
    rw [bal_tokBurn h, if_neg (fun e => h1 e.2)]
  | incAllow h => intro a z _; rw [bal_tokIncAllow h]
  | @burnFrom w w' t sp owner amt hs h =>
    intro a z hz
    have h1 : z ≠ owner := fun e => hz (e ▸ hs)
    rw [bal_tokBurnFrom h, if_neg (fun e => h1 e.2)]
  | decAllow h => intro a z _; rw [bal_tokDecAllow h]
  | quiet hb _ _ => intro a z _; rw [hb]

/-- the supply of a token whose minter is not among the minting contracts never grows -/
theorem supply_le (h : Tr S Mn N w w') {t m : Nat} (hm : ¬ Mn m) :
    (∃ T, w.tok t = some T ∧ T.minter = some m) → supply w' t ≤ supply w t := by
  induction h with
  | refl w => intro _; exact Nat.le_refl _
  | trans h1 _ ih1 ih2 =>
    rintro ⟨T, hT, hTm⟩
    obtain ⟨T', hT', hm'⟩ := h1.stat.toks t T hT
    exact Nat.le_trans (ih2 ⟨T', hT', hm'.trans hTm⟩) (ih1 ⟨T, hT, hTm⟩)
  | bank _ h => intro _; rw [supply_bankMove1 h]
  | xfer _ h => intro _; rw [supply_tokTransfer h]
  | xferFrom _ h => intro _; rw [supply_tokTransferFrom h]
  | @mint w w' t0 sd dst amt hsd h =>
    rintro ⟨T, hT, hTm⟩
    rw [supply_tokMint h]
    by_cases hu : t = t0
    · subst hu
      obtain ⟨T0, hT0, _, hmin, _⟩ := tokMint_ok h
      rw [hT] at hT0
      injection hT0 with hT0
      subst hT0
      rw [hTm] at hmin
      injection hmin with hmin
      subst hmin
      exact absurd hsd hm
    · rw [if_neg hu]
  | @burn w w' t0 sd amt _ h =>
    intro _
    rw [supply_tokBurn h]
    split
    · omega
    · exact Nat.le_refl _
  | incAllow h => intro _; rw [supply_tokIncAllow h]
  | @burnFrom w w' t0 sp owner amt _ h =>
    intro _
    rw [supply_tokBurnFrom h]
    split
    · omega
    · exact Nat.le_refl _
  | decAllow h => intro _; rw [supply_tokDecAllow h]
  | quiet _ hs _ => intro _; rw [hs]

theorem mono {S' Mn' N' : Nat → Prop} (h : Tr S Mn N w w') (hS : ∀ z, S z → S' z) (hM : ∀ z, Mn z → Mn' z)
    (hN : ∀ z, N z → N' z) : Tr S' Mn' N' w w' := by
  induction h with
  | refl w => exact .refl w
  | trans _ _ ih1 ih2 => exact .trans ih1 ih2
  | bank hs h => exact .bank (hS _ hs) h
  | xfer hs h => exact .xfer (hS _ hs) h
  | xferFrom hs h => exact .xferFrom (hS _ hs) h
  | mint hq h => exact .mint (hM _ hq) h
  | burn hs h => exact .burn (hS _ hs) h
  | incAllow h => exact .incAllow h
  | burnFrom hs h => exact .burnFrom (hS _ hs) h
  | decAllow h => exact .decAllow h
  | quiet hb hs hst => exact .quiet hb hs (hst.mono hN)

end Tr

/-! ### handlers -/

section handlers
variable {S Mn N : Nat → Prop}

theorem bankMoveList_tr {src dst : Nat} (hs : S src) :
    ∀ {cs : List (Nat × Nat)} {w w' : World}, bankMoveList w src dst cs = .ok w' → Tr S Mn N w w'
  | [], w, w', h => by
    simp only [bankMoveList] at h; injection h with h; subst h; exact .refl _
  | (d, amt) :: cs, w, w', h => by
    simp only [bankMoveList, bind_ok_iff] at h
    obtain ⟨w1, h1, h2⟩ := h
    exact (Tr.bank hs h1).trans (bankMoveList_tr hs h2)

theorem bankSend_tr {w w' : World} {src dst : Nat} {cs : List (Nat × Nat)} (hs : S src)
    (h : bankSend w src dst cs = .ok w') : Tr S Mn N w w' := by
  unfold bankSend at h
  dsimp only at h
  split at h
  · cases h
  · exact bankMoveList_tr hs h

theorem attach_tr {w w' : World} {src dst : Nat} {cs : List (Nat × Nat)} (hs : S src)
    (h : attach w src dst cs = .ok w') : Tr S Mn N w w' := by
  unfold attach at h
  split at h
  · injection h with h; subst h; exact .refl _
  · exact bankSend_tr hs h

theorem payout_tr {w w' : World} {src : Nat} {a : Asset} {dst amt : Nat} (hs : S src)
    (h : payout w src a dst amt = .ok w') : Tr S Mn N w w' := by
  cases a with
  | native d => exact bankSend_tr hs h
  | token t => exact .xfer hs h

theorem pairSwap_tr {w w' : World} {p : Nat} {P : PairSt} {funds : List (Nat × Nat)} {trader : Nat}
    {offer : Asset} {amt : Nat} {b ms tt : Option Nat} {o : SwapOut}
    (h : pairSwap w p P funds trader offer amt b ms tt = .ok (w', o)) (hp : S p) : Tr S Mn N w w' := by
  obtain ⟨_, _, _, x, y, ask, od, ad, n, s, k, _, _, _, _, hw⟩ := C02.pairSwap_ok h
  rcases hw with ⟨_, rfl⟩ | ⟨_, hp'⟩
  · exact .refl _
  · exact payout_tr hp hp'

theorem pairWithdraw_tr {w w' : World} {p : Nat} {P : PairSt} {sender amount : Nat} {x : Nat × Nat}
    (h : pairWithdraw w p P sender amount = .ok (w', x)) (hp : S p) : Tr S Mn N w w' := by
  obtain ⟨x0, x1, w1, w2, h1, h2, h3⟩ := C07.pairWithdraw_inv h
  exact ((payout_tr hp h1).trans (payout_tr hp h2)).trans (.burn hp h3)

theorem pairProvide_tr {w w' : World} {p : Nat} {P : PairSt} {sender : Nat} {funds : List (Nat × Nat)}
    {as0 as1 : Asset} {am0 am1 : Nat} {tol receiver : Option Nat} {sh : Nat}
    (h : pairProvide w p P sender funds as0 am0 as1 am1 tol receiver = .ok (w', sh))
    (hs : S sender) (hm : Mn p) : Tr S Mn N w w' := by
  obtain ⟨d0, d1, w1, w2, w3, h1, h2, h3, h4⟩ := C07.pairProvide_inv h
  have k1 : Tr S Mn N w w1 := by
    split at h1
    · exact .xferFrom hs h1
    · simp only [pure_ok_iff] at h1; subst h1; exact .refl _
  have k2 : Tr S Mn N w1 w2 := by
    split at h2
    · exact .xferFrom hs h2
    · simp only [pure_ok_iff] at h2; subst h2; exact .refl _
  have k3 : Tr S Mn N w2 w3 := by
    split at h3
    · exact .mint hm h3
    · simp only [pure_ok_iff] at h3; subst h3; exact .refl _
  exact ((k1.trans k2).trans k3).trans (.mint hm h4)

theorem pairReceive_tr {w w' : World} {p t from_ amount : Nat} {hk : Hook} {out : Out}
    (h : pairReceive w p t from_ amount hk = .ok (w', out)) (hp : S p) : Tr S Mn N w w' := by
  cases hk with
  | swap offer amt b ms tt =>
    obtain ⟨P, _, _, _, _, w1, o, hs, he⟩ := C14.pairReceive_swap h
    simp only [Prod.mk.injEq] at he
    obtain ⟨rfl, _⟩ := he
    exact pairSwap_tr hs hp
  | withdraw =>
    obtain ⟨P, hP, _, w1, x0, x1, hs, he⟩ := C14.pairReceive_withdraw h
    simp only [Prod.mk.injEq] at he
    obtain ⟨rfl, _⟩ := he
    exact pairWithdraw_tr hs hp
  | routerOps ops mn tt => exact absurd h C14.pairReceive_routerOps
  | garbage => exact absurd h C14.pairReceive_garbage

theorem pairUpdateDecimals_tr {w w' : World} {p sender denom da db : Nat}
    (h : pairUpdateDecimals w p sender denom da db = .ok w') : Tr S Mn N w w' := by
  unfold pairUpdateDecimals at h
  split at h
  · cases h
  rename_i P hP
  split at h
  · cases h
  injection h with h
  subst h
  refine Tr.static rfl rfl ⟨tokKeep_of_eq rfl, rfl, ?_, ?_⟩
  · intro q Q hQ
    by_cases hq : q = p
    · subst hq
      rw [hP] at hQ
      injection hQ with hQ
      subst hQ
      refine ⟨_, if_pos rfl, ?_, ?_, ?_⟩ <;> (split <;> rfl)
    · exact ⟨Q, by simp only [if_neg hq]; exact hQ, rfl, rfl, rfl⟩
  · intro q _ hq
    have hqp : q ≠ p := by
      intro e
      subst e
      rw [hP] at hq
      cases hq
    simp only [if_neg hqp]
    exact hq

theorem pairExec_tr {w w' : World} {s p : Nat} {funds : List (Nat × Nat)} {m : PairMsg} {out : Out}
    (h : pairExec w s p funds m = .ok (w', out)) (hs : S s) (hp : S p)
    (hm : ∀ as0 am0 as1 am1 tol r, m = .provide as0 am0 as1 am1 tol r → Mn p) : Tr S Mn N w w' := by
  cases m with
  | provide as0 am0 as1 am1 tol rcv =>
    obtain ⟨P, w0, w1, sh, hP, h0, h1, he⟩ := C14.pairExec_provide h
    simp only [Prod.mk.injEq] at he
    obtain ⟨rfl, _⟩ := he
    exact (attach_tr hs h0).trans (pairProvide_tr h1 hs (hm _ _ _ _ _ _ rfl))
  | swap offer amt b ms tt =>
    cases offer with
    | token t => exact absurd h C14.pairExec_swap_token
    | native d =>
      obtain ⟨P, w0, w1, o, _, h0, h1, he⟩ := C14.pairExec_swap_native h
      simp only [Prod.mk.injEq] at he
      obtain ⟨rfl, _⟩ := he
      exact (attach_tr hs h0).trans (pairSwap_tr h1 hp)
  | receive from_ amount hk =>
    obtain ⟨P, w0, _, h0, h1⟩ := C14.pairExec_receive h
    exact (attach_tr hs h0).trans (pairReceive_tr h1 hp)
  | updateDecimals d da db =>
    obtain ⟨P, w0, w1, _, h0, h1, he⟩ := C14.pairExec_updateDecimals h
    simp only [Prod.mk.injEq] at he
    obtain ⟨rfl, _⟩ := he
    exact (attach_tr hs h0).trans (pairUpdateDecimals_tr h1)

theorem tokSendPair_tr {w w' : World} {t sender p amt : Nat} {hk : Hook} {out : Out}
    (h : tokSendPair w t sender p amt hk = .ok (w', out)) (hs : S sender) (hp : S p) : Tr S Mn N w w' := by
  unfold tokSendPair at h
  simp only [bind_ok_iff] at h
  obtain ⟨w1, h1, h2⟩ := h
  exact (Tr.xfer hs h1).trans (pairReceive_tr h2 hp)

/-! router -/

theorem routerHop_tr {w w' : World} {sender : Nat} {offer ask : Asset} {tt : Option Nat}
    (h : routerHop w sender offer ask tt = .ok w') (hr : S w.router)
    (hp : ∀ R, facLookup w offer ask = some R → (w.pair R.pair).isSome → S R.pair) : Tr S Mn N w w' := by
  unfold routerHop at h
  split at h
  · cases h
  split at h
  · cases h
  rename_i R hR
  simp only [bind_ok_iff] at h
  obtain ⟨amount, _, h⟩ := h
  cases offer with
  | native d =>
    simp only [bind_ok_iff, pure_ok_iff] at h
    obtain ⟨⟨w1, o⟩, h1, rfl⟩ := h
    obtain ⟨P, w0, w2, o2, hP, h0, hsw, he⟩ := C14.pairExec_swap_native h1
    simp only [Prod.mk.injEq] at he
    obtain ⟨rfl, _⟩ := he
    have hq : S R.pair := hp R hR (by rw [hP]; rfl)
    exact (attach_tr hr h0).trans (pairSwap_tr hsw hq)
  | token t =>
    simp only [bind_ok_iff, pure_ok_iff] at h
    obtain ⟨⟨w1, o⟩, h1, rfl⟩ := h
    obtain ⟨P, w0, o2, _, hP, htr, _, _, _, hsw⟩ := C02.tokSendPair_swap_ok h1
    have hq : S R.pair := hp R hR (by rw [hP]; rfl)
    exact (Tr.xfer hr htr).trans (pairSwap_tr hsw hq)

theorem routerHops_tr {rcv : Nat} : ∀ (ops : List (Asset × Asset)) {w w' : World},
    routerHops w rcv ops = .ok w' → S w.router → (∀ z, (w.pair z).isSome → S z) →
    Tr S Mn (fun _ => False) w w'
  | [], w, w', h, _, _ => by
    simp only [routerHops] at h; injection h with h; subst h; exact .refl _
  | [(o, a)], w, w', h, hr, hp => by
    simp only [routerHops] at h
    exact routerHop_tr h hr (fun R _ hq => hp _ hq)
  | (o, a) :: b :: rest, w, w', h, hr, hp => by
    simp only [routerHops, bind_ok_iff] at h
    obtain ⟨w1, h1, h2⟩ := h
    have t1 : Tr S Mn (fun _ => False) w w1 := routerHop_tr h1 hr (fun R _ hq => hp _ hq)
    have s1 := t1.stat
    refine t1.trans (routerHops_tr (b :: rest) h2 (s1.router ▸ hr) (fun z hz => hp z ?_))
    cases hq : w.pair z with
    | none => rw [s1.pairNone z (fun e => e) hq] at hz; cases hz
    | some Q => rfl

theorem routerSwapOps_tr {name : Asset → String} {w w' : World} {sender : Nat} {ops : List (Asset × Asset)}
    {mn tt : Option Nat} (h : routerSwapOps name w sender ops mn tt = .ok w')
    (hr : S w.router) (hp : ∀ z, (w.pair z).isSome → S z) : Tr S Mn (fun _ => False) w w' := by
  unfold routerSwapOps at h
  split at h
  · cases h
  simp only [bind_ok_iff] at h
  obtain ⟨_, _, h⟩ := h
  split at h
  · exact routerHops_tr _ h hr hp
  · simp only [bind_ok_iff, pure_ok_iff] at h
    obtain ⟨_, _, w1, h1, _, _, rfl⟩ := h
    exact routerHops_tr _ h1 hr hp

theorem routerReceive_tr {name : Asset → String} {w w' : World} {from_ : Nat} {hk : Hook}
    (h : routerReceive name w from_ hk = .ok w') (hr : S w.router) (hp : ∀ z, (w.pair z).isSome → S z) :
    Tr S Mn (fun _ => False) w w' := by
  obtain ⟨ops, mn, tt, rfl, _, _, h⟩ := routerReceive_ok h
  exact routerSwapOps_tr h hr hp

theorem routerExec_tr {name : Asset → String} {w w' : World} {sender : Nat} {funds : List (Nat × Nat)}
    {m : RouterMsg} (h : routerExec name w sender funds m = .ok w')
    (hs : S sender) (hr : S w.router) (hp : ∀ z, (w.pair z).isSome → S z) : Tr S Mn (fun _ => False) w w' := by
  unfold routerExec at h
  simp only [bind_ok_iff] at h
  obtain ⟨w0, h0, h⟩ := h
  have s0 := (attach_same h0).1
  have hr0 : S w0.router := s0.router ▸ hr
  have hp0 : ∀ z, (w0.pair z).isSome → S z := fun z hz => hp z (s0.pair ▸ hz)
  refine (attach_tr hs h0).trans ?_
  cases m with
  | swapOps ops mn tt =>
    simp only [bind_ok_iff] at h
    obtain ⟨_, _, h⟩ := h
    exact routerSwapOps_tr h hr0 hp0
  | swapOp o a tt =>
    simp only [bind_ok_iff] at h
    obtain ⟨_, _, h⟩ := h
    exact routerHop_tr h hr0 (fun R _ hq => hp0 _ hq)
  | assertMin a prev mn rcv =>
    simp only [bind_ok_iff, pure_ok_iff] at h
    obtain ⟨_, _, _, _, rfl⟩ := h
    exact .refl _
  | receive from_ amount hk => exact routerReceive_tr h hr0 hp0

theorem tokSend_tr {name : Asset → String} {w w' : World} {t s d amt : Nat} {hk : Hook} {out : Out}
    (h : tokSend name w t s d amt hk = .ok (w', out)) (hs : S s) (hr : S w.router)
    (hp : ∀ z, (w.pair z).isSome → S z) : Tr S Mn (fun _ => False) w w' := by
  unfold tokSend at h
  split at h
  · rename_i hd
    exact tokSendPair_tr h hs (hp d hd)
  · split at h
    · simp only [bind_ok_iff, pure_ok_iff, Prod.mk.injEq] at h
      obtain ⟨w1, h1, w2, h2, rfl, _⟩ := h
      have s1 := (tokTransfer_same h1).1
      exact (Tr.xfer hs h1).trans (routerReceive_tr h2 (s1.router ▸ hr) (fun z hz => hp z (s1.pair ▸ hz)))
    · cases h

theorem tokSendFrom_tr {name : Asset → String} {w w' : World} {t sp o d amt : Nat} {hk : Hook} {out : Out}
    (h : tokSendFrom name w t sp o d amt hk = .ok (w', out)) (ho : S o) (hr : S w.router)
    (hp : ∀ z, (w.pair z).isSome → S z) : Tr S Mn (fun _ => False) w w' := by
  obtain ⟨w1, h1, ⟨hd, h2⟩ | ⟨_, _, _, h2⟩⟩ := tokSendFrom_ok h
  · exact (Tr.xferFrom ho h1).trans (pairReceive_tr h2 (hp d hd))
  · have s1 := (tokTransferFrom_same h1).1
    exact (Tr.xferFrom ho h1).trans (routerReceive_tr h2 (s1.router ▸ hr) (fun z hz => hp z (s1.pair ▸ hz)))

/-! factory -/

theorem facFanOut1_pr {denom decimals : Nat} {w w' : World} {msgs msgs' : List (Nat × Nat × Nat)}
    {e : Bytes × Record} (h : facFanOut1 denom decimals (w, msgs) e = .ok (w', msgs')) :
    w'.pair = w.pair ∧ w'.router = w.router := by
  unfold facFanOut1 at h
  dsimp only at h
  split at h
  · cases h
  injection h with h
  by_cases h0 : e.2.a0 = .native denom <;> by_cases h1 : e.2.a1 = .native denom <;>
    simp only [h0, h1, if_true, if_false, Prod.mk.injEq] at h <;>
    (obtain ⟨rfl, _⟩ := h; exact ⟨rfl, rfl⟩)

theorem facFanOut_fold_pr {denom decimals : Nat} :
    ∀ (l : List (Bytes × Record)) {acc acc' : World × List (Nat × Nat × Nat)},
    l.foldlM (facFanOut1 denom decimals) acc = .ok acc' → acc'.1.pair = acc.1.pair ∧ acc'.1.router = acc.1.router
  | [], acc, acc', h => by
    simp only [List.foldlM_nil, pure_ok_iff] at h; subst h; exact ⟨rfl, rfl⟩
  | e :: l, (w, msgs), acc', h => by
    simp only [List.foldlM_cons, bind_ok_iff] at h
    obtain ⟨⟨w1, msgs1⟩, h1, h2⟩ := h
    obtain ⟨a1, a2⟩ := facFanOut1_pr h1
    obtain ⟨b1, b2⟩ := facFanOut_fold_pr l h2
    exact ⟨b1.trans a1, b2.trans a2⟩

theorem facFanOutMsgs_tr {denom : Nat} : ∀ (l : List (Nat × Nat × Nat)) {w w' : World},
    facFanOutMsgs denom w l = .ok w' → Tr S Mn N w w'
  | [], w, w', h => by
    simp only [facFanOutMsgs] at h; injection h with h; subst h; exact .refl _
  | (p, da, db) :: rest, w, w', h => by
    simp only [facFanOutMsgs, bind_ok_iff] at h
    obtain ⟨w1, h1, h2⟩ := h
    exact (pairUpdateDecimals_tr h1).trans (facFanOutMsgs_tr rest h2)

theorem facAddDecimals_tr {w w' : World} {sender denom decimals : Nat}
    (h : facAddDecimals w sender denom decimals = .ok w') : Tr S Mn N w w' := by
  unfold facAddDecimals at h
  dsimp only at h
  split at h
  · cases h
  split at h
  · cases h
  split at h
  · simp only [bind_ok_iff] at h
    obtain ⟨⟨w2, msgs⟩, h1, h2⟩ := h
    have k1 := C07.facFanOut_fold_ledger _ h1
    obtain ⟨p1, p2⟩ := facFanOut_fold_pr _ h1
    have t1 : Tr S Mn N w w2 := Tr.static k1.bank k1.tok (stat_of_eq k1.tok p1 p2)
    exact t1.trans (facFanOutMsgs_tr _ h2)
  · simp only [pure_ok_iff] at h
    subst h
    exact Tr.static rfl rfl (stat_of_eq rfl rfl rfl)

theorem facCreatePair_tr {w w' : World} {sender : Nat} {a0 a1 : Asset} {req : Requirements} {comm : Option Nat}
    {lpDec : Option Nat} {np nl : Nat} (h : facCreatePair w sender a0 a1 req comm lpDec np nl = .ok w')
    (hfp : w.pair np = none) (hft : w.tok nl = none) (hN : N np) : Tr S Mn N w w' := by
  unfold facCreatePair at h
  split at h
  · cases h
  split at h
  · cases h
  have h' : ∃ cb : Bool, (if cb = true then (.error .err : M World) else _) = .ok w' := ⟨_, h⟩
  clear h
  obtain ⟨cb, h⟩ := h'
  split at h
  · cases h
  simp only [bind_ok_iff] at h
  obtain ⟨d0, _, d1, _, h⟩ := h
  split at h
  · cases h
  split at h
  · cases h
  have h' : ∃ cb : Bool, (if cb = true then (.error .err : M World) else _) = .ok w' := ⟨_, h⟩
  clear h
  obtain ⟨cb, h⟩ := h'
  split at h
  · cases h
  injection h with h
  subst h
  refine .quiet ?_ ?_ ⟨?_, rfl, ?_, ?_⟩
  · intro a z
    cases a with
    | native d => rfl
    | token u =>
      by_cases hu : u = nl
      · subst hu; simp [bal, hft]
      · simp [bal, hu]
  · intro u
    by_cases hu : u = nl
    · subst hu; simp [supply, hft]
    · simp [supply, hu]
  · intro u U hU
    have hu : u ≠ nl := by
      intro e
      subst e
      rw [hft] at hU
      cases hU
    exact ⟨U, by simp only [if_neg hu]; exact hU, rfl⟩
  · intro q Q hQ
    have hq : q ≠ np := by
      intro e
      subst e
      rw [hfp] at hQ
      cases hQ
    exact ⟨Q, by simp only [if_neg hq]; exact hQ, rfl, rfl, rfl⟩
  · intro q hq hn
    have hqn : q ≠ np := fun e => hq (e ▸ hN)
    simp only [if_neg hqn]
    exact hn

theorem facExec_tr {w w' : World} {s : Nat} {funds : List (Nat × Nat)} {m : FacMsg}
    (h : facExec w s funds m = .ok w') (hs : S s)
    (hfresh : ∀ a0 a1 req c ld np nl, m = .createPair a0 a1 req c ld np nl → w.pair np = none ∧ w.tok nl = none ∧ N np) :
    Tr S Mn N w w' := by
  unfold facExec at h
  simp only [bind_ok_iff] at h
  obtain ⟨w0, h0, h⟩ := h
  refine (attach_tr hs h0).trans ?_
  have htok := (attach_same h0).2
  have hpair := (attach_same h0).1.pair
  cases m with
  | updateConfig o tc pc =>
    have h : facUpdateConfig w0 s o tc pc = .ok w' := h
    unfold facUpdateConfig at h
    split at h
    · cases h
    split at h
    · cases h
    injection h with h
    subst h
    exact Tr.static rfl rfl (stat_of_eq rfl rfl rfl)
  | createPair a0 a1 req comm lpDec np nl =>
    obtain ⟨f1, f2, f3⟩ := hfresh a0 a1 req comm lpDec np nl rfl
    exact facCreatePair_tr h (by rw [hpair]; exact f1) (by rw [htok]; exact f2) f3
  | addDecimals d k => exact facAddDecimals_tr h
  | migratePair p c =>
    have h : facMigratePair w0 s p c = .ok w' := h
    unfold facMigratePair at h
    split at h
    · cases h
    split at h
    · cases h
    split at h
    · split at h
      · injection h with h; subst h; exact .refl _
      · cases h
    · cases h

end handlers

/-! ### every operation -/

/-- the paying accounts of an operation: the actor, the owner whose allowance a `…From` operation spends (it consented
by granting the allowance), the pair contracts, the router -/
def SrcOf (w : World) (op : Op) (z : Nat) : Prop :=
  (z = actorOf op ∨ z ∈ ownersOf op) ∨ (w.pair z).isSome ∨ z = w.router

/-- the only contract that mints during an operation: the pair a provision is addressed to -/
def MintOf (op : Op) (z : Nat) : Prop :=
  ∃ s f as0 am0 as1 am1 tol r, op = .pair s z f (.provide as0 am0 as1 am1 tol r)

/-- the only address at which an operation may create a pair contract -/
def NewOf (op : Op) (q : Nat) : Prop :=
  ∃ s f a0 a1 req c ld nl, op = .factory s f (.createPair a0 a1 req c ld q nl)

/-- the two facts `FreshOK` provides (the only places where its shape is used) -/
theorem freshOK_pair {w : World} {op : Op} {s : Nat} {f : List (Nat × Nat)} {a0 a1 : Asset} {req : Requirements}
    {c ld : Option Nat} {np nl : Nat} (hf : FreshOK w op) (e : op = .factory s f (.createPair a0 a1 req c ld np nl)) :
    w.pair np = none := (hf s f a0 a1 req c ld np nl e).1

theorem freshOK_tok {w : World} {op : Op} {s : Nat} {f : List (Nat × Nat)} {a0 a1 : Asset} {req : Requirements}
    {c ld : Option Nat} {np nl : Nat} (hf : FreshOK w op) (e : op = .factory s f (.createPair a0 a1 req c ld np nl)) :
    w.tok nl = none := (hf s f a0 a1 req c ld np nl e).2.1

theorem pairExec_isSome {w : World} {s p : Nat} {f : List (Nat × Nat)} {m : PairMsg} {r : World × Out}
    (h : pairExec w s p f m = .ok r) : (w.pair p).isSome := by
  unfold pairExec at h
  cases hP : w.pair p with
  | none => simp [hP] at h
  | some P => rfl

theorem exec_tr {name : Asset → String} {w w' : World} {op : Op} {out : Out}
    (hf : FreshOK w op) (h : exec name w op = .ok (w', out)) :
    Tr (SrcOf w op) (MintOf op) (NewOf op) w w' := by
  have hr : SrcOf w op w.router := Or.inr (Or.inr rfl)
  have hpairs : ∀ q, (w.pair q).isSome → SrcOf w op q := fun q hq => Or.inr (Or.inl hq)
  have hact : SrcOf w op (actorOf op) := Or.inl (Or.inl rfl)
  cases op with
  | bankSend s d cs =>
    simp only [exec, bind_ok_iff, pure_ok_iff, Prod.mk.injEq] at h
    obtain ⟨w1, h1, rfl, _⟩ := h
    exact bankSend_tr hact h1
  | tokTransfer t s d a =>
    simp only [exec, bind_ok_iff, pure_ok_iff, Prod.mk.injEq] at h
    obtain ⟨w1, h1, rfl, _⟩ := h
    exact .xfer hact h1
  | tokSend t s d a hk =>
    simp only [exec] at h
    exact (tokSend_tr h hact hr hpairs).mono (fun _ e => e) (fun _ e => e) (fun _ e => e.elim)
  | tokIncAllow t o s a =>
    simp only [exec, bind_ok_iff, pure_ok_iff, Prod.mk.injEq] at h
    obtain ⟨w1, h1, rfl, _⟩ := h
    exact .incAllow h1
  | tokBurn t s a =>
    simp only [exec, bind_ok_iff, pure_ok_iff, Prod.mk.injEq] at h
    obtain ⟨w1, h1, rfl, _⟩ := h
    exact .burn hact h1
  | pair s p f m =>
    simp only [exec] at h
    exact pairExec_tr h hact (hpairs p (pairExec_isSome h))
      (fun as0 am0 as1 am1 tol r e => ⟨s, f, as0, am0, as1, am1, tol, r, by rw [e]⟩)
  | router s f m =>
    simp only [exec, bind_ok_iff, pure_ok_iff, Prod.mk.injEq] at h
    obtain ⟨w1, h1, rfl, _⟩ := h
    exact (routerExec_tr h1 hact hr hpairs).mono (fun _ e => e) (fun _ e => e) (fun _ e => e.elim)
  | factory s f m =>
    simp only [exec, bind_ok_iff, pure_ok_iff, Prod.mk.injEq] at h
    obtain ⟨w1, h1, rfl, _⟩ := h
    refine facExec_tr h1 hact ?_
    intro a0 a1 req c ld np nl e
    have e' : Op.factory s f m = .factory s f (.createPair a0 a1 req c ld np nl) := by rw [e]
    exact ⟨freshOK_pair hf e', freshOK_tok hf e', ⟨s, f, a0, a1, req, c, ld, nl, e'⟩⟩
  | tokTransferFrom t sp o d a =>
    simp only [exec, bind_ok_iff, pure_ok_iff, Prod.mk.injEq] at h
    obtain ⟨w1, h1, rfl, _⟩ := h
    exact .xferFrom (Or.inl (Or.inr (by simp [ownersOf]))) h1
  | tokSendFrom t sp o d a hk =>
    simp only [exec] at h
    exact (tokSendFrom_tr h (Or.inl (Or.inr (by simp [ownersOf]))) hr hpairs).mono
      (fun _ e => e) (fun _ e => e) (fun _ e => e.elim)
  | tokBurnFrom t sp o a =>
    simp only [exec, bind_ok_iff, pure_ok_iff, Prod.mk.injEq] at h
    obtain ⟨w1, h1, rfl, _⟩ := h
    exact .burnFrom (Or.inl (Or.inr (by simp [ownersOf]))) h1
  | tokDecAllow t o sp a =>
    simp only [exec, bind_ok_iff, pure_ok_iff, Prod.mk.injEq] at h
    obtain ⟨w1, h1, rfl, _⟩ := h
    exact .decAllow h1

/-- C07, "can only increase": an account that is not the actor, not the owner whose allowance a `…From` operation
spends, not a pair contract and not the router — in particular the designated receiver of a swap, provision or
route — loses nothing in any asset -/
theorem never_lose {name : Asset → String} {w w' : World} {op : Op} {out : Out}
    (hf : FreshOK w op) (h : exec name w op = .ok (w', out)) (a : Asset) (z : Nat)
    (hz : z ≠ actorOf op) (ho : z ∉ ownersOf op) (hp : w.pair z = none) (hr : z ≠ w.router) :
    bal w a z ≤ bal w' a z := by
  refine (exec_tr hf h).keep a z ?_
  rintro ((h1 | h1) | h2 | h3)
  · exact hz h1
  · exact ho h1
  · rw [hp] at h2; cases h2
  · exact hr h3

end Halo.Flows
