/-
C13X proofs — the pass-through property of a whole route without the restrictions of C13W.

  * `route_passthrough_cyclic` : C13W.`route_core` re-exported without `first ≠ target` (cyclic routes),
  * `pairSwap_full`, `hop_full` : the complete balance equation of a swap / of one router hop, valid also when
    the pair pays itself,
  * `RouteOK'`, `route_effect` : the complete effect of a route on every balance for ANY recipient other than
    the router (the recipient may be a pair of the route),
  * `routerSimulate_credit`, `tx_core`, `exec_route_passthrough`, `exec_tokSend_passthrough` : transaction level.
Core Lean only.
-/
import Halo.Inv
import Halo.Proofs.C13W

set_option linter.unusedSimpArgs false

namespace Halo.C13X
open Halo Halo.C02 Halo.C13 Halo.C13W

/-! ### 1. cyclic routes -/

/-- `route_core` of C13W never used `first ≠ target`: the statement holds for cyclic routes as well -/
theorem route_passthrough_cyclic {w w' : World} {rcv amt : Nat} {first : Asset} {ops : List (Asset × Asset)}
    (hok : RouteOK w rcv ops) (hfirst : ops.head?.map (·.1) = some first)
    (hamt : bal w first w.router = amt) (h : routerHops w rcv ops = .ok w') :
    ∃ target q, ops.getLast?.map (·.2) = some target ∧ routerSimulateTop w amt ops = .ok q ∧
      bal w' target rcv = bal w target rcv + q ∧
      (∀ b, OnRoute b ops → bal w' b w.router = 0) ∧
      (∀ b, b ≠ target → bal w' b rcv = bal w b rcv) ∧
      (∀ b, ¬ OnRoute b ops → ∀ z, bal w' b z = bal w b z) := by
  cases ops with
  | nil => simp at hfirst
  | cons h0 rest =>
    obtain ⟨o, a⟩ := h0
    have e : o = first := by simpa using hfirst
    subst e
    subst hamt
    obtain ⟨n, hsim, hpay, hzero, hrcv, hoff⟩ := route_core rest o a w w' hok h
    refine ⟨lastAsk a rest, n, getLast?_lastAsk rest o a, ?_, hpay, hzero, hrcv, hoff⟩
    unfold routerSimulateTop
    rw [if_neg (List.cons_ne_nil _ _)]
    exact hsim

/-! ### the complete balance equation of a swap and of a hop -/

/-- a swap moves `o.ret` of the ask asset from the pair to the recipient and nothing else; in additive form
the equation also covers a pair that pays itself -/
theorem pairSwap_full {w0 w' : World} {p : Nat} {P : PairSt} {funds : List (Nat × Nat)} {trader : Nat}
    {offer : Asset} {amt : Nat} {b ms tgt : Option Nat} {o : SwapOut}
    (h : pairSwap w0 p P funds trader offer amt b ms tgt = .ok (w', o)) (c : Asset) (z : Nat) :
    bal w' c z + (if c = o.ask ∧ z = p then o.ret else 0) =
      bal w0 c z + (if c = o.ask ∧ z = tgt.getD trader then o.ret else 0) := by
  obtain ⟨_, _, _, x, y, ask, od, ad, n, s, k, _, _, _, rfl, hw⟩ := pairSwap_ok h
  dsimp only
  rcases hw with ⟨hn, rfl⟩ | ⟨hn, hp⟩
  · subst hn
    simp
  · obtain ⟨_, hle, hb⟩ := bal_payout hp c z
    rw [hb]
    by_cases hc : c = ask
    · subst hc
      by_cases h1 : z = p
      · subst h1
        by_cases h2 : z = tgt.getD trader
        · simp [← h2]; omega
        · simp [h2]; omega
      · by_cases h2 : z = tgt.getD trader
        · simp [h1, ← h2]
        · simp [h1, h2]
    · simp [hc]

/-- crediting `x` of `o` from `r` to `p` and then swapping on `p` -/
theorem credit_swap_full {w w0 w1 : World} {p r x : Nat} {P : PairSt} {funds : List (Nat × Nat)}
    {o a : Asset} {b ms tgt : Option Nat} {so : SwapOut}
    (hrp : r ≠ p) (hx : x ≤ bal w o r)
    (hcred : ∀ c z, bal w0 c z =
      if c = o then
        (if z = p then (if z = r then bal w c z - x else bal w c z) + x
         else if z = r then bal w c z - x else bal w c z)
      else bal w c z)
    (hsw : pairSwap w0 p P funds r o x b ms tgt = .ok (w1, so)) (hask : so.ask = a) (hoa : o ≠ a)
    (c : Asset) (z : Nat) :
    bal w1 c z + (if c = o ∧ z = r then x else 0) + (if c = a ∧ z = p then so.ret else 0) =
      bal w c z + (if c = o ∧ z = p then x else 0) + (if c = a ∧ z = tgt.getD r then so.ret else 0) := by
  have h1 := pairSwap_full hsw c z
  rw [hask, hcred c z] at h1
  by_cases hc : c = o
  · subst hc
    have hca : ¬ c = a := hoa
    simp only [hca, false_and, if_false, Nat.add_zero, if_true, true_and] at h1 ⊢
    by_cases hzp : z = p
    · subst hzp
      have hzr : ¬ z = r := Ne.symm hrp
      simp only [hzr, if_false, if_true] at h1 ⊢
      omega
    · by_cases hzr : z = r
      · subst hzr
        simp only [hzp, if_false, if_true] at h1 ⊢
        omega
      · simp only [hzp, hzr, if_false] at h1 ⊢
        omega
  · simp only [hc, false_and, if_false, Nat.add_zero] at h1 ⊢
    exact h1

/-- the complete effect of one hop over a pair that trades exactly the hop's two assets: the router's whole
balance `x` of the offer asset goes to the pair, the pair pays the quoted `n` of the ask asset to the
recipient (which may be the pair itself or the router), nothing else moves -/
theorem hop_full {w w1 : World} {o a : Asset} {tgt : Option Nat} {R : Record} {P : PairSt}
    (hR : facLookup w o a = some R) (hP : w.pair R.pair = some P)
    (hPa : (P.a0 = o ∧ P.a1 = a) ∨ (P.a0 = a ∧ P.a1 = o)) (hoa : o ≠ a)
    (hpr : R.pair ≠ w.router)
    (h : routerHop w w.router o a tgt = .ok w1) :
    ∃ n s k, bal w o w.router ≠ 0 ∧
      qSimulation w R.pair o (bal w o w.router) = .ok (n, s, k) ∧
      (∀ c z, bal w1 c z + (if c = o ∧ z = w.router then bal w o w.router else 0) +
            (if c = a ∧ z = R.pair then n else 0) =
          bal w c z + (if c = o ∧ z = R.pair then bal w o w.router else 0) +
            (if c = a ∧ z = tgt.getD w.router then n else 0)) ∧
      Same w w1 ∧ SameToks w w1 := by
  have hne : P.a0 ≠ P.a1 := by
    rcases hPa with ⟨e0, e1⟩ | ⟨e0, e1⟩
    · rw [e0, e1]; exact hoa
    · rw [e0, e1]; exact Ne.symm hoa
  have hsp : w.router ≠ R.pair := Ne.symm hpr
  have hsa : ∀ so : SwapOut, (so.ask = P.a0 ∨ so.ask = P.a1) → so.ask ≠ o → so.ask = a := by
    intro so hask hao
    rcases hPa with ⟨e0, e1⟩ | ⟨e0, e1⟩
    · rcases hask with hh | hh
      · exact absurd (hh.trans e0) hao
      · exact hh.trans e1
    · rcases hask with hh | hh
      · exact hh.trans e0
      · exact absurd (hh.trans e1) hao
  cases o with
  | native d =>
    obtain ⟨R', so, hR', hex⟩ := routerHop_native_ok h
    rw [hR] at hR'; injection hR' with hR'; subst hR'
    have hsim := sim_eq_exec_native hP hne hsp hex
    obtain ⟨P', w0, hP', hat, hsw⟩ := pairExec_swap_native_ok hex
    rw [hP] at hP'; injection hP' with hP'; subst hP'
    obtain ⟨h0, hm⟩ := attach_single_ok hat
    obtain ⟨_, _, e3, e4, _, _, _, _⟩ := pairSwap_effect hsw
    refine ⟨so.ret, so.spread, so.comm, h0, hsim, ?_, RegOKP.routerHop_same h, routerHop_sameToks h⟩
    exact credit_swap_full hsp (bankMove1_ok hm).1 (bal_bankMove1 hm) hsw (hsa so e3 (e4 hne)) hoa
  | token t =>
    obtain ⟨R', so, hR', hex⟩ := routerHop_token_ok h
    rw [hR] at hR'; injection hR' with hR'; subst hR'
    have hsim := sim_eq_exec_hook hP hne hsp hex
    obtain ⟨P', w0, o', ho, hP', htr, _, _, _, hsw⟩ := tokSendPair_swap_ok hex
    injection ho with ho; subst ho
    rw [hP] at hP'; injection hP' with hP'; subst hP'
    obtain ⟨h0, hle, _⟩ := tokTransfer_effect hsp htr
    obtain ⟨_, _, e3, e4, _, _, _, _⟩ := pairSwap_effect hsw
    refine ⟨so.ret, so.spread, so.comm, h0, hsim, ?_, RegOKP.routerHop_same h, routerHop_sameToks h⟩
    exact credit_swap_full hsp hle (bal_tokTransfer htr) hsw (hsa so e3 (e4 hne)) hoa

/-- the three readings of the hop equation: at the paying account `r`, at the pair `p`, and anywhere else -/
theorem hopEq_cases {w w1 : World} {o a : Asset} {p r rc x n : Nat} (hrp : r ≠ p)
    (E : ∀ c z, bal w1 c z + (if c = o ∧ z = r then x else 0) + (if c = a ∧ z = p then n else 0) =
        bal w c z + (if c = o ∧ z = p then x else 0) + (if c = a ∧ z = rc then n else 0)) :
    (∀ c, bal w1 c r + (if c = o then x else 0) = bal w c r + (if r = rc ∧ c = a then n else 0)) ∧
    (∀ c, bal w1 c p + (if c = a then n else 0) =
      bal w c p + (if c = o then x else 0) + (if p = rc ∧ c = a then n else 0)) ∧
    (∀ c z, z ≠ r → z ≠ p → bal w1 c z = bal w c z + (if z = rc ∧ c = a then n else 0)) := by
  have hc : ∀ (c : Asset) (z : Nat), (c = a ∧ z = rc) ↔ (z = rc ∧ c = a) := fun _ _ => and_comm
  simp only [hc] at E
  refine ⟨fun c => ?_, fun c => ?_, fun c z hzr hzp => ?_⟩
  · have e := E c r
    simp only [hrp, and_false, and_true, if_false, Nat.add_zero] at e
    exact e
  · have e := E c p
    simp only [Ne.symm hrp, and_false, and_true, if_false, Nat.add_zero] at e
    exact e
  · have e := E c z
    simp only [hzr, hzp, and_false, if_false, Nat.add_zero] at e
    exact e

/-! ### the route hypotheses without any condition on the recipient -/

/-- `z` is not the pair of any hop of the route -/
def NotRoutePair (w : World) (ops : List (Asset × Asset)) (z : Nat) : Prop :=
  ∀ h ∈ ops, ∀ R, facLookup w h.1 h.2 = some R → R.pair ≠ z

/-- `C13W.RouteOK` without its conditions on the recipient (and without `routerNoPair`, which follows): every
hop resolves to a registered pair over exactly its two (distinct) assets, the pairs are pairwise distinct, none
is the router, and the router holds nothing of any asset of the route other than the first hop's offer asset -/
structure RouteOK' (w : World) (ops : List (Asset × Asset)) : Prop where
  resolves : ∀ h ∈ ops, ∃ R P, facLookup w h.1 h.2 = some R ∧ w.pair R.pair = some P ∧
      ((P.a0 = h.1 ∧ P.a1 = h.2) ∨ (P.a0 = h.2 ∧ P.a1 = h.1)) ∧ h.1 ≠ h.2 ∧ R.pair ≠ w.router
  distinctPairs : (ops.map fun h => (facLookup w h.1 h.2).map (·.pair)).Nodup
  routerEmpty : ∀ h ∈ ops, ∀ b, (b = h.1 ∨ b = h.2) → b ≠ (ops.head?.map (·.1)).getD b → bal w b w.router = 0

theorem RouteOK.weaken {w : World} {rcv : Nat} {ops : List (Asset × Asset)} (hok : RouteOK w rcv ops) :
    RouteOK' w ops ∧ rcv ≠ w.router ∧ NotRoutePair w ops rcv := by
  refine ⟨⟨fun h hm => ?_, hok.distinctPairs, hok.routerEmpty⟩, hok.rcvNotRouter, fun h hm R hR => ?_⟩
  · obtain ⟨R, P, e1, e2, e3, e4, e5, _⟩ := hok.resolves h hm
    exact ⟨R, P, e1, e2, e3, e4, e5⟩
  · obtain ⟨R', P, e1, _, _, _, _, e6⟩ := hok.resolves h hm
    rw [hR] at e1; injection e1 with e1; subst e1
    exact e6

theorem RouteOK'.head {w : World} {o a : Asset} {rest : List (Asset × Asset)}
    (hok : RouteOK' w ((o, a) :: rest)) :
    ∃ R P, facLookup w o a = some R ∧ w.pair R.pair = some P ∧
      ((P.a0 = o ∧ P.a1 = a) ∨ (P.a0 = a ∧ P.a1 = o)) ∧ o ≠ a ∧ R.pair ≠ w.router :=
  hok.resolves (o, a) List.mem_cons_self

theorem RouteOK'.empty {w : World} {o a : Asset} {rest : List (Asset × Asset)}
    (hok : RouteOK' w ((o, a) :: rest)) {h : Asset × Asset} (hm : h ∈ (o, a) :: rest) {b : Asset}
    (hb : b = h.1 ∨ b = h.2) (hbo : b ≠ o) : bal w b w.router = 0 :=
  hok.routerEmpty h hm b hb hbo

theorem RouteOK'.pair_ne {w : World} {o a : Asset} {rest : List (Asset × Asset)}
    (hok : RouteOK' w ((o, a) :: rest)) {R : Record} (hR : facLookup w o a = some R)
    {h : Asset × Asset} (hm : h ∈ rest) {R' : Record} (hR' : facLookup w h.1 h.2 = some R') :
    R'.pair ≠ R.pair := by
  have hnd := hok.distinctPairs
  rw [List.map_cons, List.nodup_cons] at hnd
  intro e
  apply hnd.1
  rw [List.mem_map]
  refine ⟨h, hm, ?_⟩
  simp only [hR, hR', Option.map_some, e]

/-- the first (non-final) hop of a successful route, with the complete balance equation -/
theorem route_first_hop' {w w1 w' : World} {rcv : Nat} {o a o2 a2 : Asset} {rest : List (Asset × Asset)}
    (hok : RouteOK' w ((o, a) :: (o2, a2) :: rest))
    (h1 : routerHop w w.router o a none = .ok w1)
    (h2 : routerHops w1 rcv ((o2, a2) :: rest) = .ok w') :
    ∃ R n s k, facLookup w o a = some R ∧ R.pair ≠ w.router ∧
      qSimulation w R.pair o (bal w o w.router) = .ok (n, s, k) ∧
      o2 = a ∧ bal w1 a w.router = n ∧ bal w1 o w.router = 0 ∧
      (∀ c, bal w1 c R.pair + (if c = a then n else 0) = bal w c R.pair + (if c = o then bal w o w.router else 0)) ∧
      (∀ c z, z ≠ w.router → z ≠ R.pair → bal w1 c z = bal w c z) ∧
      (∀ c, c ≠ o → c ≠ a → ∀ z, bal w1 c z = bal w c z) ∧
      Same w w1 ∧ SameToks w w1 ∧ RouteOK' w1 ((o2, a2) :: rest) := by
  obtain ⟨R, P, hR, hP, hPa, hoa, hpr⟩ := hok.head
  obtain ⟨n, s, k, _, hsim, E, hs, ht⟩ := hop_full (tgt := none) hR hP hPa hoa hpr h1
  have hg : (none : Option Nat).getD w.router = w.router := rfl
  rw [hg] at E
  obtain ⟨Er, Ep, Eo⟩ := hopEq_cases (Ne.symm hpr) E
  have ha0 : bal w a w.router = 0 := hok.empty List.mem_cons_self (Or.inr rfl) (Ne.symm hoa)
  have hz : bal w1 o w.router = 0 := by
    have e := Er o
    simp only [hoa, false_and, and_false, if_false, if_true, Nat.add_zero] at e
    omega
  have hpay : bal w1 a w.router = n := by
    have e := Er a
    simp only [Ne.symm hoa, and_self, if_false, if_true, Nat.add_zero] at e
    omega
  have hro : ∀ c, c ≠ o → c ≠ a → bal w1 c w.router = bal w c w.router := by
    intro c h1 h2
    have e := Er c
    simp only [h1, h2, false_and, if_false, Nat.add_zero] at e
    exact e
  have hpo : ∀ c, bal w1 c R.pair + (if c = a then n else 0) =
      bal w c R.pair + (if c = o then bal w o w.router else 0) := by
    intro c
    have e := Ep c
    simp only [hpr, and_false, if_false, Nat.add_zero] at e
    exact e
  have hoth : ∀ c z, z ≠ w.router → z ≠ R.pair → bal w1 c z = bal w c z := by
    intro c z hzr hzp
    have e := Eo c z hzr hzp
    simp only [hzr, and_false, if_false, Nat.add_zero] at e
    exact e
  have hoff : ∀ c, c ≠ o → c ≠ a → ∀ z, bal w1 c z = bal w c z := by
    intro c hco hca z
    have e := E c z
    simp only [hco, hca, false_and, if_false, Nat.add_zero] at e
    exact e
  -- the next hop finds a non-zero balance of its offer asset, which must be the asset just received
  have ho2 : o2 = a := by
    obtain ⟨tgt, w2, hh⟩ := routerHops_head_ok h2
    obtain ⟨_, _, _, _, hnz, _⟩ := hop_spends_whole_balance hh
    rw [hs.router] at hnz
    apply Classical.byContradiction
    intro hne
    apply hnz
    by_cases hoo : o2 = o
    · rw [hoo]; exact hz
    · rw [hro o2 hoo hne]
      exact hok.empty (List.mem_cons_of_mem _ List.mem_cons_self) (Or.inl rfl) hoo
  refine ⟨R, n, s, k, hR, hpr, hsim, ho2, hpay, hz, hpo, hoth, hoff, hs, ht, ?_⟩
  constructor
  · intro h hm
    obtain ⟨R', P', e1, e2, e3, e4, e5⟩ := hok.resolves h (List.mem_cons_of_mem _ hm)
    refine ⟨R', P', ?_, ?_, e3, e4, ?_⟩
    · rw [facLookup_same hs]; exact e1
    · rw [hs.pair]; exact e2
    · rw [hs.router]; exact e5
  · have hnd := hok.distinctPairs
    rw [List.map_cons, List.nodup_cons] at hnd
    have hc : (fun h : Asset × Asset => (facLookup w1 h.1 h.2).map (·.pair)) =
        (fun h : Asset × Asset => (facLookup w h.1 h.2).map (·.pair)) := by
      funext h; rw [facLookup_same hs]
    rw [hc]
    exact hnd.2
  · intro h hm b hb hbo
    have hbo' : b ≠ a := by rw [← ho2]; exact hbo
    rw [hs.router]
    by_cases hbo1 : b = o
    · rw [hbo1]; exact hz
    · rw [hro b hbo1 hbo']
      exact hok.empty (List.mem_cons_of_mem _ hm) hb hbo1

theorem notRoutePair_same {w w1 : World} (hs : Same w w1) {ops : List (Asset × Asset)} {z : Nat}
    (h : NotRoutePair w ops z) : NotRoutePair w1 ops z := by
  intro hp hm R hR
  rw [facLookup_same hs] at hR
  exact h hp hm R hR

/-- the complete effect of a route, for any recipient other than the router: the quote, the router's balances,
the assets off the route, every account that is neither the router nor a pair of the route, and every pair of
the route (hop `pre ++ [(o', a')]` receives the quote `x` of the prefix and pays its own quote `y`) — the final
payment `n` is added to whichever account the recipient is -/
theorem route_effect {rcv : Nat} : ∀ (rest : List (Asset × Asset)) (o a : Asset) (w w' : World),
    RouteOK' w ((o, a) :: rest) → rcv ≠ w.router → routerHops w rcv ((o, a) :: rest) = .ok w' →
    ∃ n, routerSimulate w (bal w o w.router) ((o, a) :: rest) = .ok n ∧
      (∀ b, OnRoute b ((o, a) :: rest) → bal w' b w.router = 0) ∧
      (∀ b, ¬ OnRoute b ((o, a) :: rest) → ∀ z, bal w' b z = bal w b z) ∧
      (∀ z, z ≠ w.router → NotRoutePair w ((o, a) :: rest) z → ∀ b,
        bal w' b z = bal w b z + (if z = rcv ∧ b = lastAsk a rest then n else 0)) ∧
      (∀ pre o' a' post, (o, a) :: rest = pre ++ (o', a') :: post →
        ∀ R x y s k, facLookup w o' a' = some R → routerSimulate w (bal w o w.router) pre = .ok x →
          qSimulation w R.pair o' x = .ok (y, s, k) →
          ∀ b, bal w' b R.pair + (if b = a' then y else 0) =
            bal w b R.pair + (if b = o' then x else 0) +
              (if R.pair = rcv ∧ b = lastAsk a rest then n else 0))
  | [], o, a, w, w', hok, hrr, h => by
    rw [routerHops_single] at h
    obtain ⟨R, P, hR, hP, hPa, hoa, hpr⟩ := hok.head
    obtain ⟨n, s, k, _, hsim, E, hs, ht⟩ := hop_full (tgt := some rcv) hR hP hPa hoa hpr h
    have hg : (some rcv).getD w.router = rcv := rfl
    rw [hg] at E
    obtain ⟨Er, Ep, Eo⟩ := hopEq_cases (Ne.symm hpr) E
    have hrr' : ¬ w.router = rcv := Ne.symm hrr
    refine ⟨n, ?_, ?_, ?_, ?_, ?_⟩
    · rw [router_sim_cons hR hsim]; rfl
    · rintro b ⟨hp, hm, hb⟩
      rw [List.mem_singleton] at hm
      subst hm
      have e := Er b
      by_cases hbo : b = o
      · subst hbo
        simp only [hoa, and_false, if_false, if_true, Nat.add_zero] at e
        omega
      · simp only [hbo, hrr', false_and, if_false, Nat.add_zero] at e
        rw [e]
        exact hok.empty List.mem_cons_self hb hbo
    · intro b hb z
      have h1 : b ≠ a := fun e => hb ⟨(o, a), List.mem_cons_self, Or.inr e⟩
      have h2 : b ≠ o := fun e => hb ⟨(o, a), List.mem_cons_self, Or.inl e⟩
      have e := E b z
      simp only [h1, h2, false_and, if_false, Nat.add_zero] at e
      exact e
    · intro z hzr hzp b
      have hzp' : z ≠ R.pair := Ne.symm (hzp (o, a) List.mem_cons_self R hR)
      rw [Eo b z hzr hzp']
      rfl
    · intro pre o' a' post hsplit R' x y s' k' hR' hpre hq b
      cases pre with
      | nil =>
        simp only [List.nil_append, List.cons.injEq, Prod.mk.injEq] at hsplit
        obtain ⟨⟨rfl, rfl⟩, _⟩ := hsplit
        simp only [routerSimulate] at hpre
        injection hpre with hpre
        subst hpre
        rw [hR] at hR'; injection hR' with hR'; subst hR'
        rw [hsim] at hq
        injection hq with hq
        simp only [Prod.mk.injEq] at hq
        obtain ⟨rfl, _, _⟩ := hq
        exact Ep b
      | cons hd pre' =>
        simp only [List.cons_append, List.cons.injEq] at hsplit
        obtain ⟨_, hsplit⟩ := hsplit
        cases pre' <;> simp at hsplit
  | (o2, a2) :: rest, o, a, w, w', hok, hrr, h => by
    obtain ⟨w1, h1, h2⟩ := routerHops_cons_cons h
    obtain ⟨R, n1, s1, k1, hR, hpr, hsim, ho2, hbal, hz, hpo, hoth, hoff, hs, ht, hok1⟩ :=
      route_first_hop' hok h1 h2
    subst ho2
    obtain ⟨_, _, _, _, _, hoa, _⟩ := hok.head
    obtain ⟨n, isim, izero, ioff, ifr, ipairs⟩ :=
      route_effect rest o2 a2 w1 w' hok1 (by rw [hs.router]; exact hrr) h2
    rw [hs.router] at isim izero ifr ipairs
    rw [hbal] at isim ipairs
    -- the pairs of the remaining hops hold in `w1` what they held in `w`
    have hpairs : ∀ hp ∈ (o2, a2) :: rest, ∀ R', facLookup w hp.1 hp.2 = some R' →
        ∀ b, bal w1 b R'.pair = bal w b R'.pair := by
      intro hp hm R' hR' b
      obtain ⟨R'', _, e1, _, _, _, e5⟩ := hok.resolves hp (List.mem_cons_of_mem _ hm)
      rw [hR'] at e1; injection e1 with e1; subst e1
      exact hoth b R'.pair e5 (hok.pair_ne hR hm hR')
    rw [routerSimulate_congr hs ht _ hpairs] at isim
    refine ⟨n, ?_, ?_, ?_, ?_, ?_⟩
    · rw [router_sim_cons hR hsim]; exact isim
    · rintro b ⟨hp, hm, hb⟩
      by_cases hon : OnRoute b ((o2, a2) :: rest)
      · exact izero b hon
      · rw [ioff b hon w.router]
        rcases List.mem_cons.1 hm with e | hm'
        · subst e
          rcases hb with hb | hb
          · rw [hb]; exact hz
          · exact absurd ⟨(o2, a2), List.mem_cons_self, Or.inl hb⟩ hon
        · exact absurd ⟨hp, hm', hb⟩ hon
    · intro b hb z
      have hon : ¬ OnRoute b ((o2, a2) :: rest) := fun ⟨hp, hm, e⟩ => hb ⟨hp, List.mem_cons_of_mem _ hm, e⟩
      have e1 : b ≠ o2 := fun e => hb ⟨(o, o2), List.mem_cons_self, Or.inr e⟩
      have e2 : b ≠ o := fun e => hb ⟨(o, o2), List.mem_cons_self, Or.inl e⟩
      rw [ioff b hon z]
      exact hoff b e2 e1 z
    · intro z hzr hzp b
      have hzp1 : NotRoutePair w1 ((o2, a2) :: rest) z :=
        notRoutePair_same hs (fun hp hm => hzp hp (List.mem_cons_of_mem _ hm))
      rw [ifr z hzr hzp1 b, hoth b z hzr (Ne.symm (hzp (o, o2) List.mem_cons_self R hR))]
      rfl
    · intro pre o' a' post hsplit R' x y s' k' hR' hpre hq b
      cases pre with
      | nil =>
        simp only [List.nil_append, List.cons.injEq, Prod.mk.injEq] at hsplit
        obtain ⟨⟨rfl, rfl⟩, _⟩ := hsplit
        simp only [routerSimulate] at hpre
        injection hpre with hpre
        subst hpre
        rw [hR] at hR'; injection hR' with hR'; subst hR'
        rw [hsim] at hq
        injection hq with hq
        simp only [Prod.mk.injEq] at hq
        obtain ⟨rfl, _, _⟩ := hq
        have hnp : NotRoutePair w1 ((o2, a2) :: rest) R.pair := by
          intro hp hm R' hR'
          rw [facLookup_same hs] at hR'
          exact hok.pair_ne hR hm hR'
        have e1 := ifr R.pair hpr hnp b
        have e2 := hpo b
        show _ = _ + _ + (if R.pair = rcv ∧ b = lastAsk a2 rest then n else 0)
        omega
      | cons hd pre' =>
        simp only [List.cons_append, List.cons.injEq] at hsplit
        obtain ⟨rfl, hsplit⟩ := hsplit
        have hm : (o', a') ∈ (o2, a2) :: rest := by
          rw [hsplit]; exact List.mem_append_right _ List.mem_cons_self
        have hpm : ∀ hp ∈ pre', hp ∈ (o2, a2) :: rest := by
          intro hp hh; rw [hsplit]; exact List.mem_append_left _ hh
        rw [router_sim_cons hR hsim] at hpre
        have hpre1 : routerSimulate w1 n1 pre' = .ok x := by
          rw [routerSimulate_congr hs ht pre' (fun hp hh => hpairs hp (hpm hp hh))]; exact hpre
        have hq1 : qSimulation w1 R'.pair o' x = .ok (y, s', k') := by
          rw [qSimulation_congr (p := R'.pair) (by rw [hs.pair]) ht (hpairs (o', a') hm R' hR') o' x]
          exact hq
        have e := ipairs pre' o' a' post hsplit R' x y s' k' (by rw [facLookup_same hs]; exact hR') hpre1 hq1 b
        rw [hpairs (o', a') hm R' hR' b] at e
        exact e

/-! ### 3. any recipient other than the router -/

/-- a successful simulation of a route splits at every hop: the prefix quotes the hop's input `x`, the hop's
pair quotes `y` for it, and the rest of the route turns `y` into the final quote -/
theorem routerSimulate_split {w : World} : ∀ (pre : List (Asset × Asset)) {o a : Asset}
    {post : List (Asset × Asset)} {amt q : Nat},
    routerSimulate w amt (pre ++ (o, a) :: post) = .ok q →
    ∃ R x y s k, facLookup w o a = some R ∧ routerSimulate w amt pre = .ok x ∧
      qSimulation w R.pair o x = .ok (y, s, k) ∧ routerSimulate w y post = .ok q
  | [], o, a, post, amt, q, h => by
    simp only [List.nil_append, routerSimulate] at h
    cases hR : facLookup w o a with
    | none => rw [hR] at h; cases h
    | some R =>
      rw [hR] at h
      cases hq : qSimulation w R.pair o amt with
      | error e => simp only [hq] at h; cases h
      | ok r =>
        obtain ⟨y, s, k⟩ := r
        simp only [hq] at h
        exact ⟨R, amt, y, s, k, rfl, rfl, hq, h⟩
  | (o1, a1) :: pre', o, a, post, amt, q, h => by
    simp only [List.cons_append, routerSimulate] at h
    cases hR1 : facLookup w o1 a1 with
    | none => rw [hR1] at h; cases h
    | some R1 =>
      rw [hR1] at h
      cases hq1 : qSimulation w R1.pair o1 amt with
      | error e => simp only [hq1] at h; cases h
      | ok r =>
        obtain ⟨y1, s1, k1⟩ := r
        simp only [hq1] at h
        obtain ⟨R, x, y, s, k, e1, e2, e3, e4⟩ := routerSimulate_split pre' h
        refine ⟨R, x, y, s, k, e1, ?_, e3, e4⟩
        rw [router_sim_cons hR1 hq1]
        exact e2

/-- `route_effect` for a route given as a list -/
theorem route_effect_top {w w' : World} {rcv amt : Nat} {first : Asset} {ops : List (Asset × Asset)}
    (hok : RouteOK' w ops) (hrr : rcv ≠ w.router) (hfirst : ops.head?.map (·.1) = some first)
    (hamt : bal w first w.router = amt) (h : routerHops w rcv ops = .ok w') :
    ∃ target q, ops.getLast?.map (·.2) = some target ∧ routerSimulateTop w amt ops = .ok q ∧
      (∀ b, OnRoute b ops → bal w' b w.router = 0) ∧
      (∀ b, ¬ OnRoute b ops → ∀ z, bal w' b z = bal w b z) ∧
      (∀ z, z ≠ w.router → NotRoutePair w ops z → ∀ b,
        bal w' b z = bal w b z + (if z = rcv ∧ b = target then q else 0)) ∧
      (∀ pre o a post, ops = pre ++ (o, a) :: post →
        ∃ R x y s k, facLookup w o a = some R ∧ routerSimulate w amt pre = .ok x ∧
          qSimulation w R.pair o x = .ok (y, s, k) ∧ routerSimulate w y post = .ok q ∧
          ∀ b, bal w' b R.pair + (if b = a then y else 0) =
            bal w b R.pair + (if b = o then x else 0) + (if R.pair = rcv ∧ b = target then q else 0)) := by
  cases ops with
  | nil => simp at hfirst
  | cons hd rest =>
    obtain ⟨o0, a0⟩ := hd
    have e : o0 = first := by simpa using hfirst
    subst e
    subst hamt
    obtain ⟨n, hsim, hzero, hoff, hfr, hpairs⟩ := route_effect rest o0 a0 w w' hok hrr h
    refine ⟨lastAsk a0 rest, n, getLast?_lastAsk rest o0 a0, ?_, hzero, hoff, hfr, ?_⟩
    · unfold routerSimulateTop
      rw [if_neg (List.cons_ne_nil _ _)]
      exact hsim
    · intro pre o a post hsplit
      rw [hsplit] at hsim
      obtain ⟨R, x, y, s, k, e1, e2, e3, e4⟩ := routerSimulate_split pre hsim
      exact ⟨R, x, y, s, k, e1, e2, e3, e4, hpairs pre o a post hsplit R x y s k e1 e2 e3⟩

/-- the recipient is the pair of a hop of the route (a donation to that pool): its balances change by its own
hop (it receives the hop's input `x` and pays the hop's quote `y`) and by the final payment of the route's
quote `q` -/
theorem route_rcv_pair {w w' : World} {rcv amt : Nat} {first : Asset} {ops pre post : List (Asset × Asset)}
    {o a : Asset} {R : Record}
    (hok : RouteOK' w ops) (hrr : rcv ≠ w.router) (hfirst : ops.head?.map (·.1) = some first)
    (hamt : bal w first w.router = amt) (h : routerHops w rcv ops = .ok w')
    (hsplit : ops = pre ++ (o, a) :: post) (hR : facLookup w o a = some R) (hrcv : R.pair = rcv) :
    ∃ target q x y s k, ops.getLast?.map (·.2) = some target ∧ routerSimulateTop w amt ops = .ok q ∧
      routerSimulate w amt pre = .ok x ∧ qSimulation w rcv o x = .ok (y, s, k) ∧
      routerSimulate w y post = .ok q ∧
      ∀ b, bal w' b rcv + (if b = a then y else 0) =
        bal w b rcv + (if b = o then x else 0) + (if b = target then q else 0) := by
  obtain ⟨target, q, e1, e2, _, _, _, hp⟩ := route_effect_top hok hrr hfirst hamt h
  obtain ⟨R', x, y, s, k, f1, f2, f3, f4, f5⟩ := hp pre o a post hsplit
  rw [hR] at f1; injection f1 with f1; subst f1
  subst hrcv
  refine ⟨target, q, x, y, s, k, e1, e2, f2, f3, f4, fun b => ?_⟩
  have e := f5 b
  simp only [true_and] at e
  exact e

/-- the recipient is the pair of the LAST hop: that pair pays the quote to itself, so the recipient's balance
of the target asset does not change at all (the counterexample to "the recipient receives the quote" for a
recipient that is a pair of the route); it keeps the last hop's input -/
theorem route_rcv_last_pair {w w' : World} {rcv amt : Nat} {first : Asset} {ops pre : List (Asset × Asset)}
    {o a : Asset} {R : Record}
    (hok : RouteOK' w ops) (hrr : rcv ≠ w.router) (hfirst : ops.head?.map (·.1) = some first)
    (hamt : bal w first w.router = amt) (h : routerHops w rcv ops = .ok w')
    (hsplit : ops = pre ++ [(o, a)]) (hR : facLookup w o a = some R) (hrcv : R.pair = rcv) :
    ∃ q x, routerSimulateTop w amt ops = .ok q ∧ routerSimulate w amt pre = .ok x ∧
      bal w' a rcv = bal w a rcv ∧ bal w' o rcv = bal w o rcv + x ∧
      ∀ b, b ≠ o → b ≠ a → bal w' b rcv = bal w b rcv := by
  obtain ⟨target, q, x, y, s, k, e1, e2, e3, e4, e5, e6⟩ :=
    route_rcv_pair hok hrr hfirst hamt h hsplit hR hrcv
  simp only [routerSimulate] at e5
  injection e5 with e5
  subst e5
  have htarget : target = a := by
    rw [hsplit] at e1
    simp at e1
    exact e1.symm
  subst htarget
  have hoa : o ≠ target := by
    obtain ⟨_, _, _, _, _, hne, _⟩ := hok.resolves (o, target) (by rw [hsplit]; simp)
    exact hne
  refine ⟨y, x, e2, e3, ?_, ?_, ?_⟩
  · have e := e6 target
    simp only [Ne.symm hoa, if_true, if_false, Nat.add_zero] at e
    omega
  · have e := e6 o
    simp only [hoa, if_true, if_false, Nat.add_zero] at e
    exact e
  · intro b h1 h2
    have e := e6 b
    simp only [h1, h2, if_false, Nat.add_zero] at e
    exact e

/-! ### 2. transaction level -/

/-- the router's simulation reads only the registry, the pair states and the balances held by pairs -/
theorem routerSimulate_congr' {w w1 : World} (hs : Same w w1) (ht : SameToks w w1)
    (hb : ∀ p, (w.pair p).isSome → ∀ b, bal w1 b p = bal w b p) :
    ∀ (ops : List (Asset × Asset)) (n : Nat), routerSimulate w1 n ops = routerSimulate w n ops
  | [], n => rfl
  | (o, a) :: rest, n => by
    simp only [routerSimulate]
    rw [facLookup_same hs]
    cases hR : facLookup w o a with
    | none => rfl
    | some R =>
      have hq : qSimulation w1 R.pair o n = qSimulation w R.pair o n := by
        cases hP : w.pair R.pair with
        | none => unfold qSimulation; rw [hs.pair, hP]
        | some P => exact qSimulation_congr (by rw [hs.pair]) ht (hb R.pair (by rw [hP]; rfl)) o n
      simp only [hq]
      cases qSimulation w R.pair o n with
      | error e => rfl
      | ok r =>
        obtain ⟨m, s, k⟩ := r
        exact routerSimulate_congr' hs ht hb rest m

theorem bankMoveList_other {s p : Nat} : ∀ {cs : List (Nat × Nat)} {w w' : World},
    bankMoveList w s p cs = .ok w' → ∀ z, z ≠ s → z ≠ p → ∀ d, w'.bank z d = w.bank z d
  | [], w, w', h, z, _, _, d => by
    simp only [bankMoveList] at h
    injection h with h
    subst h
    rfl
  | (x, a) :: cs, w, w', h, z, hz1, hz2, d => by
    simp only [bankMoveList, bind_ok_iff] at h
    obtain ⟨w1, h1, h2⟩ := h
    rw [bankMoveList_other h2 z hz1 hz2 d, bankMove1_bank h1]
    simp only [if_neg hz1, if_neg hz2, ite_self]

/-- attached funds (any coin list) change no balance of a third account -/
theorem attach_other {w w0 : World} {s p : Nat} {funds : List (Nat × Nat)} (h : attach w s p funds = .ok w0)
    (b : Asset) (z : Nat) (hz1 : z ≠ s) (hz2 : z ≠ p) : bal w0 b z = bal w b z := by
  cases b with
  | token t => simp only [bal, (attach_same h).2]
  | native d =>
    unfold attach at h
    split at h
    · injection h with h; subst h; rfl
    · unfold bankSend at h
      dsimp only at h
      split at h
      · cases h
      · exact bankMoveList_other h z hz1 hz2 d

/-- attaching funds to the router changes no pair's reserves: the router's quote for any route and any
input is the same before and after the funds arrive -/
theorem quote_attach {w w0 : World} {s : Nat} {funds : List (Nat × Nat)}
    (hat : attach w s w.router funds = .ok w0) (hsp : (w.pair s).isNone) (hrp : (w.pair w.router).isNone)
    (ops : List (Asset × Asset)) (n : Nat) : routerSimulateTop w0 n ops = routerSimulateTop w n ops := by
  unfold routerSimulateTop
  rw [routerSimulate_congr' (attach_same hat).1 (sameToks_of_tok_eq (attach_same hat).2) ?_ ops n]
  intro p hp b
  refine attach_other hat b p ?_ ?_
  · rintro rfl; rw [Option.isNone_iff_eq_none] at hsp; rw [hsp] at hp; cases hp
  · rintro rfl; rw [Option.isNone_iff_eq_none] at hrp; rw [hrp] at hp; cases hp

/-- the same for the cw20 transfer that precedes the router's `Receive` -/
theorem quote_tokTransfer {w w0 : World} {t s amt : Nat}
    (htr : tokTransfer w t s w.router amt = .ok w0) (hsp : (w.pair s).isNone) (hrp : (w.pair w.router).isNone)
    (ops : List (Asset × Asset)) (n : Nat) : routerSimulateTop w0 n ops = routerSimulateTop w n ops := by
  unfold routerSimulateTop
  rw [routerSimulate_congr' (tokTransfer_same htr).1 (tokTransfer_sameToks htr) ?_ ops n]
  intro p hp b
  rw [bal_tokTransfer htr]
  have h1 : p ≠ s := by
    rintro rfl; rw [Option.isNone_iff_eq_none] at hsp; rw [hsp] at hp; cases hp
  have h2 : p ≠ w.router := by
    rintro rfl; rw [Option.isNone_iff_eq_none] at hrp; rw [hrp] at hp; cases hp
  simp only [if_neg h1, if_neg h2, ite_self]

/-- `C13W.swapOps_passthrough` without its (unused) route hypothesis: the whole `ExecuteSwapOperations`
handler is the hops of its route -/
theorem swapOps_hops {name : Asset → String} {w w' : World} {sender : Nat} {ops : List (Asset × Asset)}
    {mn tgt : Option Nat} (h : routerSwapOps name w sender ops mn tgt = .ok w') :
    routerHops w (tgt.getD sender) ops = .ok w' := by
  unfold routerSwapOps at h
  cases hl : ops.getLast? with
  | none => rw [hl] at h; cases h
  | some last =>
    rw [hl] at h
    simp only [bind_ok_iff] at h
    obtain ⟨_, _, h⟩ := h
    cases mn with
    | none => exact h
    | some m =>
      simp only [bind_ok_iff, pure_ok_iff] at h
      obtain ⟨_, _, w1, hh, _, _, rfl⟩ := h
      exact hh

/-- the common core of both entry points, for any recipient other than the router: `w0` is `w` after `amt` of
`first` moved from the sender `s` to the router; then `execute_swap_operations` runs in `w0`.  The complete
effect of the transaction on every balance, relative to the PRE-transaction world `w` -/
theorem tx_effect {name : Asset → String} {w w0 w' : World} {s amt : Nat} {first : Asset}
    {ops : List (Asset × Asset)} {mn toAddr : Option Nat}
    (hok : RouteOK' w ops) (hrr : toAddr.getD s ≠ w.router)
    (hfirst : ops.head?.map (·.1) = some first)
    (h0 : bal w first w.router = 0)
    (hsr : s ≠ w.router) (hsp : (w.pair s).isNone)
    (hs : Same w w0) (ht : SameToks w w0)
    (hle : amt ≤ bal w first s)
    (hcred : ∀ b z, bal w0 b z =
      if b = first then
        (if z = w.router then (if z = s then bal w b z - amt else bal w b z) + amt
         else if z = s then bal w b z - amt else bal w b z)
      else bal w b z)
    (h : routerSwapOps name w0 s ops mn toAddr = .ok w') :
    ∃ target q, ops.getLast?.map (·.2) = some target ∧ routerSimulateTop w amt ops = .ok q ∧
      (∀ b, OnRoute b ops → bal w' b w.router = 0) ∧
      (∀ b, ¬ OnRoute b ops → ∀ z, bal w' b z = bal w b z) ∧
      (∀ z, z ≠ w.router → NotRoutePair w ops z → ∀ b,
        bal w' b z + (if z = s ∧ b = first then amt else 0) =
          bal w b z + (if z = toAddr.getD s ∧ b = target then q else 0)) ∧
      (∀ pre o a post, ops = pre ++ (o, a) :: post →
        ∃ R x y s' k, facLookup w o a = some R ∧ routerSimulate w amt pre = .ok x ∧
          qSimulation w R.pair o x = .ok (y, s', k) ∧ routerSimulate w y post = .ok q ∧
          ∀ b, bal w' b R.pair + (if b = a then y else 0) =
            bal w b R.pair + (if b = o then x else 0) +
              (if R.pair = toAddr.getD s ∧ b = target then q else 0)) := by
  -- the route hypotheses hold in `w0`
  have hrouter0 : ∀ b, b ≠ first → bal w0 b w.router = bal w b w.router := by
    intro b hb; rw [hcred, if_neg hb]
  have hok0 : RouteOK' w0 ops := by
    constructor
    · intro hp hm
      obtain ⟨R', P', e1, e2, e3, e4, e5⟩ := hok.resolves hp hm
      refine ⟨R', P', ?_, ?_, e3, e4, ?_⟩
      · rw [facLookup_same hs]; exact e1
      · rw [hs.pair]; exact e2
      · rw [hs.router]; exact e5
    · have hc : (fun hp : Asset × Asset => (facLookup w0 hp.1 hp.2).map (·.pair)) =
          (fun hp : Asset × Asset => (facLookup w hp.1 hp.2).map (·.pair)) := by
        funext hp; rw [facLookup_same hs]
      rw [hc]
      exact hok.distinctPairs
    · intro hp hm b hb hbo
      rw [hs.router]
      by_cases hbf : b = first
      · exfalso; apply hbo; rw [hfirst]; exact hbf
      · rw [hrouter0 b hbf]
        exact hok.routerEmpty hp hm b hb hbo
  have hamt : bal w0 first w0.router = amt := by
    rw [hs.router, hcred, if_pos rfl, if_pos rfl, if_neg (Ne.symm hsr), h0, Nat.zero_add]
  obtain ⟨target, q, e1, e2, hzero, hoff, hfr, hprs⟩ :=
    route_effect_top hok0 (by rw [hs.router]; exact hrr) hfirst hamt (swapOps_hops h)
  rw [hs.router] at hzero hfr
  -- no reserve of a pair of the route changed
  have hpairs : ∀ hp ∈ ops, ∀ R, facLookup w hp.1 hp.2 = some R → ∀ b, bal w0 b R.pair = bal w b R.pair := by
    intro hp hm R hR b
    obtain ⟨R', P', f1, f2, _, _, f5⟩ := hok.resolves hp hm
    rw [hR] at f1; injection f1 with f1; subst f1
    have h1 : R.pair ≠ s := by
      rintro rfl; rw [Option.isNone_iff_eq_none] at hsp; rw [hsp] at f2; cases f2
    rw [hcred]
    simp only [if_neg h1, if_neg f5, ite_self]
  have hquote : ∀ (l : List (Asset × Asset)), (∀ hp ∈ l, hp ∈ ops) → ∀ n,
      routerSimulate w0 n l = routerSimulate w n l := fun l hl n =>
    routerSimulate_congr hs ht l (fun hp hm => hpairs hp (hl hp hm)) n
  refine ⟨target, q, e1, ?_, hzero, ?_, ?_, ?_⟩
  · unfold routerSimulateTop at e2 ⊢
    rw [hquote ops (fun _ hm => hm)] at e2
    exact e2
  · intro b hb z
    rw [hoff b hb z, hcred]
    have hbf : b ≠ first := by
      intro e
      apply hb
      cases ops with
      | nil => simp at hfirst
      | cons hd rest =>
        refine ⟨hd, List.mem_cons_self, Or.inl ?_⟩
        rw [e]
        simpa using hfirst.symm
    rw [if_neg hbf]
  · intro z hzr hzp b
    rw [hfr z hzr (notRoutePair_same hs hzp) b, hcred]
    by_cases hbf : b = first
    · subst hbf
      by_cases hzs : z = s
      · subst hzs
        simp only [hzr, if_false, if_true, true_and, and_self]
        omega
      · simp only [hzr, hzs, if_false, if_true, false_and, Nat.add_zero]
    · simp only [hbf, if_false, and_false, Nat.add_zero]
  · intro pre o a post hsplit
    obtain ⟨R, x, y, s', k, f1, f2, f3, f4, f5⟩ := hprs pre o a post hsplit
    rw [facLookup_same hs] at f1
    have hm : (o, a) ∈ ops := by rw [hsplit]; exact List.mem_append_right _ List.mem_cons_self
    have hbR := hpairs (o, a) hm R f1
    rw [hquote pre (fun hp hh => by rw [hsplit]; exact List.mem_append_left _ hh)] at f2
    rw [hquote post (fun hp hh => by
      rw [hsplit]; exact List.mem_append_right _ (List.mem_cons_of_mem _ hh))] at f4
    rw [qSimulation_congr (p := R.pair) (by rw [hs.pair]) ht hbR o x] at f3
    refine ⟨R, x, y, s', k, f1, f2, f3, f4, fun b => ?_⟩
    have e := f5 b
    rw [hbR b] at e
    exact e

/-- the recipient is neither the router nor a pair of the route (`C13W.RouteOK`) -/
theorem tx_core {name : Asset → String} {w w0 w' : World} {s amt : Nat} {first : Asset}
    {ops : List (Asset × Asset)} {mn toAddr : Option Nat}
    (hok : RouteOK w (toAddr.getD s) ops)
    (hfirst : ops.head?.map (·.1) = some first)
    (h0 : bal w first w.router = 0)
    (hsr : s ≠ w.router) (hsp : (w.pair s).isNone)
    (hs : Same w w0) (ht : SameToks w w0)
    (hle : amt ≤ bal w first s)
    (hcred : ∀ b z, bal w0 b z =
      if b = first then
        (if z = w.router then (if z = s then bal w b z - amt else bal w b z) + amt
         else if z = s then bal w b z - amt else bal w b z)
      else bal w b z)
    (h : routerSwapOps name w0 s ops mn toAddr = .ok w') :
    ∃ target q, ops.getLast?.map (·.2) = some target ∧ routerSimulateTop w amt ops = .ok q ∧
      (∀ b, bal w' b (toAddr.getD s) + (if toAddr.getD s = s ∧ b = first then amt else 0) =
        bal w b (toAddr.getD s) + (if b = target then q else 0)) ∧
      (toAddr.getD s ≠ s → ∀ b, bal w' b s + (if b = first then amt else 0) = bal w b s) ∧
      (∀ b, OnRoute b ops → bal w' b w.router = 0) ∧
      (∀ b, ¬ OnRoute b ops → ∀ z, bal w' b z = bal w b z) := by
  obtain ⟨hok', hrr, hrp⟩ := RouteOK.weaken hok
  obtain ⟨target, q, e1, e2, hzero, hoff, hfr, _⟩ :=
    tx_effect hok' hrr hfirst h0 hsr hsp hs ht hle hcred h
  have hsnp : NotRoutePair w ops s := by
    intro hp hm R hR
    obtain ⟨R', P', f1, f2, _⟩ := hok.resolves hp hm
    rw [hR] at f1; injection f1 with f1; subst f1
    rintro rfl
    rw [Option.isNone_iff_eq_none] at hsp; rw [hsp] at f2; cases f2
  refine ⟨target, q, e1, e2, fun b => ?_, fun hrs b => ?_, hzero, hoff⟩
  · have e := hfr _ hrr hrp b
    simp only [true_and] at e
    exact e
  · have e := hfr s hsr hsnp b
    have hrs' : ¬ (s = toAddr.getD s) := Ne.symm hrs
    simp only [hrs', true_and, false_and, if_false, Nat.add_zero] at e
    exact e

/-- the subtraction form of the recipient clause -/
theorem recipient_net {x y q c : Nat} (h : x + c = y + q) : x = y + q - c := by omega

/-- transaction, direct entry: `ExecuteSwapOperations` with the input attached -/
theorem exec_route_passthrough {name : Asset → String} {w w' : World} {s d amt : Nat}
    {ops : List (Asset × Asset)} {mn toAddr : Option Nat} {out : Out}
    (hok : RouteOK w (toAddr.getD s) ops)
    (hfirst : ops.head?.map (·.1) = some (.native d))
    (h0 : bal w (.native d) w.router = 0)
    (hact : IsActor w s)
    (h : exec name w (.router s [(d, amt)] (.swapOps ops mn toAddr)) = .ok (w', out)) :
    ∃ target q, ops.getLast?.map (·.2) = some target ∧ routerSimulateTop w amt ops = .ok q ∧
      amt ≠ 0 ∧ amt ≤ bal w (.native d) s ∧
      bal w' target (toAddr.getD s) = bal w target (toAddr.getD s) + q -
        (if toAddr.getD s = s ∧ target = .native d then amt else 0) ∧
      (∀ b, bal w' b (toAddr.getD s) + (if toAddr.getD s = s ∧ b = .native d then amt else 0) =
        bal w b (toAddr.getD s) + (if b = target then q else 0)) ∧
      (toAddr.getD s ≠ s → ∀ b, bal w' b s + (if b = .native d then amt else 0) = bal w b s) ∧
      (∀ b, OnRoute b ops → bal w' b w.router = 0) ∧
      (∀ b, ¬ OnRoute b ops → ∀ z, bal w' b z = bal w b z) := by
  obtain ⟨hsp, _, hsr, _⟩ := hact
  simp only [exec, bind_ok_iff, pure_ok_iff, Prod.mk.injEq] at h
  obtain ⟨w2, h, rfl, _⟩ := h
  simp only [routerExec, bind_ok_iff] at h
  obtain ⟨w0, hat, _, _, h⟩ := h
  obtain ⟨hnz, hm⟩ := attach_single_ok hat
  obtain ⟨target, q, e1, e2, e3, e4, e5, e6⟩ :=
    tx_core hok hfirst h0 hsr hsp (attach_same hat).1 (sameToks_of_tok_eq (attach_same hat).2)
      (bankMove1_ok hm).1 (bal_bankMove1 hm) h
  refine ⟨target, q, e1, e2, hnz, (bankMove1_ok hm).1, ?_, e3, e4, e5, e6⟩
  have e := e3 target
  rw [if_pos rfl] at e
  exact recipient_net e

/-- transaction, cw20 entry: `Send` of the input to the router carrying the route -/
theorem exec_tokSend_passthrough {name : Asset → String} {w w' : World} {t s amt : Nat}
    {ops : List (Asset × Asset)} {mn toAddr : Option Nat} {out : Out}
    (hok : RouteOK w (toAddr.getD s) ops)
    (hfirst : ops.head?.map (·.1) = some (.token t))
    (h0 : bal w (.token t) w.router = 0)
    (hact : IsActor w s)
    (h : exec name w (.tokSend t s w.router amt (.routerOps ops mn toAddr)) = .ok (w', out)) :
    ∃ target q, ops.getLast?.map (·.2) = some target ∧ routerSimulateTop w amt ops = .ok q ∧
      amt ≠ 0 ∧ amt ≤ bal w (.token t) s ∧
      bal w' target (toAddr.getD s) = bal w target (toAddr.getD s) + q -
        (if toAddr.getD s = s ∧ target = .token t then amt else 0) ∧
      (∀ b, bal w' b (toAddr.getD s) + (if toAddr.getD s = s ∧ b = .token t then amt else 0) =
        bal w b (toAddr.getD s) + (if b = target then q else 0)) ∧
      (toAddr.getD s ≠ s → ∀ b, bal w' b s + (if b = .token t then amt else 0) = bal w b s) ∧
      (∀ b, OnRoute b ops → bal w' b w.router = 0) ∧
      (∀ b, ¬ OnRoute b ops → ∀ z, bal w' b z = bal w b z) := by
  obtain ⟨hsp, _, hsr, _⟩ := hact
  have hrn := hok.routerNoPair
  have hrn' : ¬ (w.pair w.router).isSome = true := by
    rw [Option.isNone_iff_eq_none] at hrn; rw [hrn]; simp
  simp only [exec, tokSend, if_neg hrn', if_true, bind_ok_iff, pure_ok_iff, Prod.mk.injEq] at h
  obtain ⟨w0, htr, w2, h, rfl, _⟩ := h
  obtain ⟨_, _, _, he, _, _, h⟩ := routerReceive_ok h
  cases he
  obtain ⟨hnz, hle, _⟩ := tokTransfer_effect hsr htr
  obtain ⟨target, q, e1, e2, e3, e4, e5, e6⟩ :=
    tx_core hok hfirst h0 hsr hsp (tokTransfer_same htr).1 (tokTransfer_sameToks htr)
      hle (bal_tokTransfer htr) h
  refine ⟨target, q, e1, e2, hnz, hle, ?_, e3, e4, e5, e6⟩
  have e := e3 target
  rw [if_pos rfl] at e
  exact recipient_net e

/-- transaction, direct entry, any recipient other than the router (it may be a pair of the route): the
complete effect on every balance relative to the pre-transaction world -/
theorem exec_route_effect {name : Asset → String} {w w' : World} {s d amt : Nat}
    {ops : List (Asset × Asset)} {mn toAddr : Option Nat} {out : Out}
    (hok : RouteOK' w ops) (hrr : toAddr.getD s ≠ w.router)
    (hfirst : ops.head?.map (·.1) = some (.native d))
    (h0 : bal w (.native d) w.router = 0)
    (hact : IsActor w s)
    (h : exec name w (.router s [(d, amt)] (.swapOps ops mn toAddr)) = .ok (w', out)) :
    ∃ target q, ops.getLast?.map (·.2) = some target ∧ routerSimulateTop w amt ops = .ok q ∧
      amt ≠ 0 ∧ amt ≤ bal w (.native d) s ∧
      (∀ b, OnRoute b ops → bal w' b w.router = 0) ∧
      (∀ b, ¬ OnRoute b ops → ∀ z, bal w' b z = bal w b z) ∧
      (∀ z, z ≠ w.router → NotRoutePair w ops z → ∀ b,
        bal w' b z + (if z = s ∧ b = .native d then amt else 0) =
          bal w b z + (if z = toAddr.getD s ∧ b = target then q else 0)) ∧
      (∀ pre o a post, ops = pre ++ (o, a) :: post →
        ∃ R x y s' k, facLookup w o a = some R ∧ routerSimulate w amt pre = .ok x ∧
          qSimulation w R.pair o x = .ok (y, s', k) ∧ routerSimulate w y post = .ok q ∧
          ∀ b, bal w' b R.pair + (if b = a then y else 0) =
            bal w b R.pair + (if b = o then x else 0) +
              (if R.pair = toAddr.getD s ∧ b = target then q else 0)) := by
  obtain ⟨hsp, _, hsr, _⟩ := hact
  simp only [exec, bind_ok_iff, pure_ok_iff, Prod.mk.injEq] at h
  obtain ⟨w2, h, rfl, _⟩ := h
  simp only [routerExec, bind_ok_iff] at h
  obtain ⟨w0, hat, _, _, h⟩ := h
  obtain ⟨hnz, hm⟩ := attach_single_ok hat
  obtain ⟨target, q, e1, e2, e3⟩ :=
    tx_effect hok hrr hfirst h0 hsr hsp (attach_same hat).1 (sameToks_of_tok_eq (attach_same hat).2)
      (bankMove1_ok hm).1 (bal_bankMove1 hm) h
  exact ⟨target, q, e1, e2, hnz, (bankMove1_ok hm).1, e3⟩

/-- transaction, cw20 entry, any recipient other than the router -/
theorem exec_tokSend_effect {name : Asset → String} {w w' : World} {t s amt : Nat}
    {ops : List (Asset × Asset)} {mn toAddr : Option Nat} {out : Out}
    (hok : RouteOK' w ops) (hrr : toAddr.getD s ≠ w.router)
    (hfirst : ops.head?.map (·.1) = some (.token t))
    (h0 : bal w (.token t) w.router = 0)
    (hact : IsActor w s)
    (h : exec name w (.tokSend t s w.router amt (.routerOps ops mn toAddr)) = .ok (w', out)) :
    ∃ target q, ops.getLast?.map (·.2) = some target ∧ routerSimulateTop w amt ops = .ok q ∧
      amt ≠ 0 ∧ amt ≤ bal w (.token t) s ∧
      (∀ b, OnRoute b ops → bal w' b w.router = 0) ∧
      (∀ b, ¬ OnRoute b ops → ∀ z, bal w' b z = bal w b z) ∧
      (∀ z, z ≠ w.router → NotRoutePair w ops z → ∀ b,
        bal w' b z + (if z = s ∧ b = .token t then amt else 0) =
          bal w b z + (if z = toAddr.getD s ∧ b = target then q else 0)) ∧
      (∀ pre o a post, ops = pre ++ (o, a) :: post →
        ∃ R x y s' k, facLookup w o a = some R ∧ routerSimulate w amt pre = .ok x ∧
          qSimulation w R.pair o x = .ok (y, s', k) ∧ routerSimulate w y post = .ok q ∧
          ∀ b, bal w' b R.pair + (if b = a then y else 0) =
            bal w b R.pair + (if b = o then x else 0) +
              (if R.pair = toAddr.getD s ∧ b = target then q else 0)) := by
  obtain ⟨hsp, _, hsr, _⟩ := hact
  simp only [exec, tokSend] at h
  split at h
  · -- a pair at the router's address would reject the route hook
    simp only [tokSendPair, bind_ok_iff] at h
    obtain ⟨w1, _, h2⟩ := h
    unfold pairReceive at h2
    split at h2
    · cases h2
    · cases h2
  · simp only [if_true, bind_ok_iff, pure_ok_iff, Prod.mk.injEq] at h
    obtain ⟨w0, htr, w2, h, rfl, _⟩ := h
    obtain ⟨_, _, _, he, _, _, h⟩ := routerReceive_ok h
    cases he
    obtain ⟨hnz, hle, _⟩ := tokTransfer_effect hsr htr
    obtain ⟨target, q, e1, e2, e3⟩ :=
      tx_effect hok hrr hfirst h0 hsr hsp (tokTransfer_same htr).1 (tokTransfer_sameToks htr)
        hle (bal_tokTransfer htr) h
    exact ⟨target, q, e1, e2, hnz, hle, e3⟩

/-! ### non-vacuity: a concrete cyclic route -/

namespace Example

def rawIdE : Asset → Bytes
  | .native d => [110, d + 2]
  | .token t => [116, t + 2]

def noReq : Requirements := { whitelist := [], min0 := 0, min1 := 0 }

def mkPair (x y lp : Nat) : PairSt :=
  { a0 := .native x, a1 := .native y, d0 := 6, d1 := 6, lp := lp, comm := defaultCommission, req := noReq, factory := 6 }
def mkRec (x y p lp : Nat) : Record :=
  { a0 := .native x, a1 := .native y, pair := p, lp := lp, d0 := 6, d1 := 6, req := noReq, comm := defaultCommission }

/-- users 1 2, factory 6, router 7, three pools over the native denoms 0 1 2 forming a triangle:
pair 11 (0/1), pair 13 (1/2), pair 15 (2/0) -/
def wE : World :=
  { bank := fun a d =>
      if a = 1 ∨ a = 2 then (if d = 0 ∨ d = 1 ∨ d = 2 then 10000000 else 0)
      else if a = 11 then (if d = 0 then 1000000 else if d = 1 then 2000000 else 0)
      else if a = 13 then (if d = 1 then 3000000 else if d = 2 then 1500000 else 0)
      else if a = 15 then (if d = 2 then 4000000 else if d = 0 then 4100000 else 0)
      else 0
    tok := fun _ => none
    pair := fun a => if a = 11 then some (mkPair 0 1 12) else if a = 13 then some (mkPair 1 2 14)
      else if a = 15 then some (mkPair 2 0 16) else none
    facAddr := 6
    owner := 0
    denoms := fun d => if d = 0 ∨ d = 1 ∨ d = 2 then some 6 else none
    registry :=
      regInsert (pairKey (rawIdE (.native 2)) (rawIdE (.native 0))) (mkRec 2 0 15 16)
        (regInsert (pairKey (rawIdE (.native 1)) (rawIdE (.native 2))) (mkRec 1 2 13 14)
          (regInsert (pairKey (rawIdE (.native 0)) (rawIdE (.native 1))) (mkRec 0 1 11 12) []))
    rawId := rawIdE
    router := 7 }

def nameE : Asset → String
  | .native 0 => "a"
  | .native 1 => "b"
  | .native 2 => "c"
  | _ => "z"

/-- the cyclic route 0 → 1 → 2 → 0 -/
def cyc : List (Asset × Asset) := [(.native 0, .native 1), (.native 1, .native 2), (.native 2, .native 0)]

def isOk {α} : M α → Bool
  | .ok _ => true
  | .error _ => false

theorem exists_of_isOk {α} {x : M α} (h : isOk x = true) : ∃ v, x = .ok v := by
  cases x with
  | ok v => exact ⟨v, rfl⟩
  | error e => cases h

theorem routeOK_cyc : RouteOK wE 2 cyc where
  resolves := by
    intro h hh
    simp [cyc] at hh
    rcases hh with rfl | rfl | rfl
    · exact ⟨mkRec 0 1 11 12, mkPair 0 1 12, rfl, rfl, Or.inl ⟨rfl, rfl⟩, by decide, by decide, by decide⟩
    · exact ⟨mkRec 1 2 13 14, mkPair 1 2 14, rfl, rfl, Or.inl ⟨rfl, rfl⟩, by decide, by decide, by decide⟩
    · exact ⟨mkRec 2 0 15 16, mkPair 2 0 16, rfl, rfl, Or.inl ⟨rfl, rfl⟩, by decide, by decide, by decide⟩
  distinctPairs := by decide +kernel
  routerEmpty := by
    intro h hh b hb hne
    simp [cyc] at hh
    rcases hh with rfl | rfl | rfl <;> rcases hb with rfl | rfl <;> rfl
  rcvNotRouter := by decide
  routerNoPair := rfl

theorem actor2 : IsActor wE 2 := by unfold IsActor; decide

theorem cyc_ok : ∃ v, exec nameE wE (.router 2 [(0, 5000)] (.swapOps cyc none none)) = .ok v :=
  exists_of_isOk (by decide +kernel)

theorem cyc_quote : routerSimulateTop wE 5000 cyc = .ok 5032 := by decide +kernel

/-- `exec_route_passthrough` instantiated on a cyclic route whose sender is the recipient: user 2 attaches
5000 of denom 0 and ends with exactly `quote − input` = 32 more of denom 0; the router ends with none of the
three denoms; user 2's balances of the intermediate denoms are unchanged -/
theorem cyc_effect : ∃ w' out, exec nameE wE (.router 2 [(0, 5000)] (.swapOps cyc none none)) = .ok (w', out) ∧
    bal w' (.native 0) 2 = 10000032 ∧
    bal w' (.native 0) 7 = 0 ∧ bal w' (.native 1) 7 = 0 ∧ bal w' (.native 2) 7 = 0 ∧
    bal w' (.native 1) 2 = 10000000 ∧ bal w' (.native 2) 2 = 10000000 := by
  obtain ⟨⟨w', out⟩, h⟩ := cyc_ok
  refine ⟨w', out, h, ?_⟩
  obtain ⟨target, q, htgt, hsim, _, _, hnet, hrcv, _, hrouter, _⟩ :=
    exec_route_passthrough (toAddr := none) routeOK_cyc rfl rfl actor2 h
  have ht : target = .native 0 := by
    have : some (Asset.native 0) = some target := htgt
    exact (Option.some.inj this).symm
  subst ht
  have hq : q = 5032 := by
    rw [cyc_quote] at hsim
    injection hsim with e
    exact e.symm
  subst hq
  refine ⟨?_, ?_, ?_, ?_, ?_, ?_⟩
  · exact hnet.trans (by decide)
  · exact hrouter _ ⟨(.native 0, .native 1), by simp [cyc], Or.inl rfl⟩
  · exact hrouter _ ⟨(.native 0, .native 1), by simp [cyc], Or.inr rfl⟩
  · exact hrouter _ ⟨(.native 1, .native 2), by simp [cyc], Or.inr rfl⟩
  · have e := hrcv (.native 1)
    simp at e
    exact e
  · have e := hrcv (.native 2)
    simp at e
    exact e

/-- the change of `r`'s balance of `b` when user 2 runs the cyclic route with recipient `r` -/
def gain (r : Nat) (b : Asset) : Option Int :=
  match exec nameE wE (.router 2 [(0, 5000)] (.swapOps cyc none (some r))) with
  | .ok (w', _) => some ((bal w' b r : Int) - (bal wE b r : Int))
  | .error _ => none

/-- an ordinary third-party recipient receives exactly the quote in the target (= first) denom -/
theorem gain_user : gain 1 (.native 0) = some 5032 := by decide +kernel

/-- the counterexample of item (ii): the recipient is the LAST hop's pair; the quote is 5032 but the
recipient's balance of the target denom does not change (it keeps the last hop's input instead) -/
theorem gain_last_pair : gain 15 (.native 0) = some 0 ∧ gain 15 (.native 2) = some 4930 := by decide +kernel

/-- the recipient is the FIRST hop's pair: it receives the input 5000 and the quote 5032 in denom 0 and pays
its own hop's output 9921 in denom 1 -/
theorem gain_first_pair : gain 11 (.native 0) = some (5000 + 5032) ∧ gain 11 (.native 1) = some (-9921) := by
  decide +kernel

end Example

end Halo.C13X
