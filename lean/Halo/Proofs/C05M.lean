/-
Proofs for the monotonicity / splitting statements of C05 (`Halo/Props/C05.lean`).
-/
import Halo.Proofs.C04

namespace Halo.C04
open Halo

private theorem div_superadd' (m n d : Nat) : m / d + n / d ≤ (m + n) / d := by
  rcases Nat.eq_zero_or_pos d with rfl | hd
  · simp
  · rw [Nat.le_div_iff_mul_le hd, Nat.add_mul]
    exact Nat.add_le_add (Nat.div_mul_le_self m d) (Nat.div_mul_le_self n d)

/-- on a positive supply, depositing more of either asset never mints less -/
theorem share_mono_deposits {sender sender' : Nat} {req req' : Requirements} {S d0 d1 e0 e1 r0 r1 m m' : Nat}
    (hS : S ≠ 0) (h : lpShare sender req S d0 d1 r0 r1 = .ok m)
    (h' : lpShare sender' req' S e0 e1 r0 r1 = .ok m') (h0 : d0 ≤ e0) (h1 : d1 ≤ e1) : m ≤ m' := by
  obtain ⟨-, -, rfl⟩ := share_pos_eq hS h
  obtain ⟨-, -, rfl⟩ := share_pos_eq hS h'
  have a0 : d0 * S / r0 ≤ e0 * S / r0 := Nat.div_le_div_right (Nat.mul_le_mul_right S h0)
  have a1 : d1 * S / r1 ≤ e1 * S / r1 := Nat.div_le_div_right (Nat.mul_le_mul_right S h1)
  omega

/-- on a positive supply, two provisions priced against the same reserves and supply never mint
more than the single provision of their sums -/
theorem share_superadditive {s1 s2 s3 : Nat} {q1 q2 q3 : Requirements} {S d0 d1 e0 e1 r0 r1 m n k : Nat}
    (hS : S ≠ 0) (h1 : lpShare s1 q1 S d0 d1 r0 r1 = .ok m) (h2 : lpShare s2 q2 S e0 e1 r0 r1 = .ok n)
    (h3 : lpShare s3 q3 S (d0 + e0) (d1 + e1) r0 r1 = .ok k) : m + n ≤ k := by
  obtain ⟨-, -, rfl⟩ := share_pos_eq hS h1
  obtain ⟨-, -, rfl⟩ := share_pos_eq hS h2
  obtain ⟨-, -, rfl⟩ := share_pos_eq hS h3
  have a0 : d0 * S / r0 + e0 * S / r0 ≤ (d0 + e0) * S / r0 := by
    rw [Nat.add_mul]; exact div_superadd' _ _ _
  have a1 : d1 * S / r1 + e1 * S / r1 ≤ (d1 + e1) * S / r1 := by
    rw [Nat.add_mul]; exact div_superadd' _ _ _
  omega
end Halo.C04
