/-
C11 — router delivers at least `minimum_receive` or the whole route reverts.
Only the final `assert_minium_receive` message matters; nothing about the hops is needed.
-/
import Halo.Proofs.WorldBasic

namespace Halo.C11
open Halo

/-- what a passing `assert_minium_receive` means -/
theorem routerAssertMin_ok {w : World} {sender : Nat} {a : Asset} {prev m rcv : Nat}
    (h : routerAssertMin w sender a prev m rcv = .ok ()) : prev + m ≤ bal w a rcv := by
  unfold routerAssertMin at h
  split at h
  · cases h
  · simp only [bind_ok_iff] at h
    obtain ⟨b, hb, got, hgot, h⟩ := h
    have hb' := balOf_ok hb
    obtain ⟨hle, hg⟩ := Cw.checkedSub_ok.mp hgot
    split at h
    · cases h
    · omega

theorem route_min_receive {name : Asset → String} {w w' : World} {sender m : Nat} {ops : List (Asset × Asset)}
    {to : Option Nat} (h : routerSwapOps name w sender ops (some m) to = .ok w') :
    ∃ o target, ops.getLast? = some (o, target) ∧
      bal w target (to.getD sender) + m ≤ bal w' target (to.getD sender) := by
  unfold routerSwapOps at h
  split at h
  · cases h
  · rename_i o target hlast
    refine ⟨o, target, hlast, ?_⟩
    simp only [bind_ok_iff, pure_ok_iff] at h
    obtain ⟨_, _, prev, hprev, w1, _, u, hmin, rfl⟩ := h
    cases u
    have hp := balOf_ok hprev
    have := routerAssertMin_ok hmin
    omega

theorem exec_min_receive {name : Asset → String} {w w' : World} {s m : Nat} {funds : List (Nat × Nat)}
    {ops : List (Asset × Asset)} {to : Option Nat}
    (h : routerExec name w s funds (.swapOps ops (some m) to) = .ok w') :
    ∃ w0 o target, attach w s w.router funds = .ok w0 ∧ ops.getLast? = some (o, target) ∧
      bal w0 target (to.getD s) + m ≤ bal w' target (to.getD s) := by
  obtain ⟨w0, h0, _, h1⟩ := routerExec_swapOps_ok h
  obtain ⟨o, target, hl, hb⟩ := route_min_receive h1
  exact ⟨w0, o, target, h0, hl, hb⟩

theorem send_min_receive {name : Asset → String} {w w' : World} {t u amt m : Nat}
    {ops : List (Asset × Asset)} {to : Option Nat} {out : Out}
    (hr : (w.pair w.router).isNone)
    (h : tokSend name w t u w.router amt (.routerOps ops (some m) to) = .ok (w', out)) :
    ∃ w0 o target, tokTransfer w t u w.router amt = .ok w0 ∧ ops.getLast? = some (o, target) ∧
      bal w0 target (to.getD u) + m ≤ bal w' target (to.getD u) := by
  unfold tokSend at h
  split at h
  · rename_i hs
    cases hp : w.pair w.router <;> simp [hp] at hr hs
  · simp only [↓reduceIte, bind_ok_iff, pure_ok_iff, Prod.mk.injEq] at h
    obtain ⟨w1, h1, w2, h2, rfl, _⟩ := h
    obtain ⟨_, _, _, he, _, _, h2⟩ := routerReceive_ok h2
    cases he
    obtain ⟨o, target, hl, hb⟩ := route_min_receive h2
    exact ⟨w1, o, target, h1, hl, hb⟩

theorem empty_route_rejected {name : Asset → String} {w w' : World} {sender : Nat} {m to : Option Nat} :
    routerSwapOps name w sender [] m to ≠ .ok w' := by
  intro h
  simp [routerSwapOps] at h

end Halo.C11
