/-
C15 — proofs: `assert_slippage_tolerance` accepts only within (a 2-ulp widening of) the caller's
tolerance, guard rejections are justified, tolerances above 100% are an ordinary error, and with
positive 128-bit inputs nothing aborts.
-/
import Halo.Proofs.Basic
import Halo.Formulas
import Halo.Spec
import Mathlib.Tactic.Linarith
import Mathlib.Tactic.Ring

namespace Halo.C15
open Halo

/-! ### inversion of the two helper computations -/

theorem calcPriceDrop_ok {d0 d1 w a : Nat} :
    calcPriceDrop d0 d1 w = .ok a ↔
      d1 ≠ 0 ∧ d0 * E < U ∧ d0 * E / d1 * w < U ∧ a = d0 * E / d1 * w / E := by
  unfold calcPriceDrop
  simp only [bind_ok_iff, Dec.fromRatio_ok, Dec.mul_ok]
  constructor
  · rintro ⟨r, ⟨h1, h2, rfl⟩, h3, rfl⟩; exact ⟨h1, h2, h3, rfl⟩
  · rintro ⟨h1, h2, h3, rfl⟩; exact ⟨_, ⟨h1, h2, rfl⟩, h3, rfl⟩

theorem calcSlippageTolerance_ok {p0 p1 b : Nat} :
    calcSlippageTolerance p0 p1 = .ok b ↔ p1 ≠ 0 ∧ p0 * E < U ∧ b = p0 * E / p1 :=
  Dec.fromRatio_ok

/-! ### the helper computations fail only by aborting -/

theorem u256_mul_err {a b : Nat} {e : Err} (h : u256.mul a b = .error e) : e = .abort := by
  unfold u256.mul at h; split at h <;> simp_all

theorem u256_div_err {a b : Nat} {e : Err} (h : u256.div a b = .error e) : e = .abort := by
  unfold u256.div at h; split at h <;> simp_all

theorem fromRatio_err {n d : Nat} {e : Err} (h : Dec.fromRatio n d = .error e) : e = .abort := by
  unfold Dec.fromRatio at h
  split at h
  · simp_all
  · simp only [bind_error_iff] at h
    rcases h with h | ⟨_, _, h⟩
    · exact u256_mul_err h
    · exact u256_div_err h

theorem decMul_err {a b : Nat} {e : Err} (h : Dec.mul a b = .error e) : e = .abort := by
  unfold Dec.mul at h
  simp only [bind_error_iff] at h
  rcases h with h | ⟨_, _, h⟩
  · exact u256_mul_err h
  · exact u256_div_err h

theorem decSub_err {a b : Nat} {e : Err} (h : Dec.sub a b = .error e) : e = .abort := by
  unfold Dec.sub at h; split at h <;> simp_all

theorem calcPriceDrop_err {d0 d1 w : Nat} {e : Err} (h : calcPriceDrop d0 d1 w = .error e) :
    e = .abort := by
  unfold calcPriceDrop at h
  simp only [bind_error_iff] at h
  rcases h with h | ⟨_, _, h⟩
  · exact fromRatio_err h
  · exact decMul_err h

theorem calcSlippageTolerance_err {p0 p1 : Nat} {e : Err}
    (h : calcSlippageTolerance p0 p1 = .error e) : e = .abort :=
  fromRatio_err h

/-! ### arithmetic cores -/

theorem lt_succ_div_mul (n : Nat) {d : Nat} (hd : 0 < d) : n < (n / d + 1) * d := by
  have h1 := Nat.div_add_mod n d
  have h2 := Nat.mod_lt n hd
  rw [Nat.add_mul, Nat.one_mul, Nat.mul_comm (n / d) d]
  omega

/-- `⌊⌊d0·E/d1⌋·w/E⌋ ≤ ⌊r0·E/r1⌋` and `w ≤ E` give `d0·w/d1 < r0·E/r1 + 2` (cross-multiplied) -/
theorem sound_core {d0 d1 r0 r1 w : Nat} (hd1 : d1 ≠ 0) (hr1 : r1 ≠ 0) (hw : w ≤ E)
    (h : d0 * E / d1 * w / E ≤ r0 * E / r1) :
    d0 * w * r1 < r0 * d1 * E + 2 * d1 * r1 := by
  have hd1' : 0 < d1 := Nat.pos_of_ne_zero hd1
  have hr1' : 0 < r1 := Nat.pos_of_ne_zero hr1
  have hE : 0 < E := E_pos
  generalize hq : d0 * E / d1 = q at h
  generalize hA : q * w / E = A at h
  generalize hB : r0 * E / r1 = B at h
  -- floor facts
  have q_hi : d0 * E < (q + 1) * d1 := by
    rw [← hq]; exact lt_succ_div_mul _ hd1'
  have A_hi : q * w < (A + 1) * E := by
    rw [← hA]; exact lt_succ_div_mul _ hE
  have B_lo : B * r1 ≤ r0 * E := by
    rw [← hB]; exact Nat.div_mul_le_self _ _
  -- d0 * E * w < (A + 2) * E * d1
  have s1 : d0 * E * w ≤ (q + 1) * d1 * w := Nat.mul_le_mul_right w (Nat.le_of_lt q_hi)
  have s2 : q * w * d1 < (A + 1) * E * d1 := Nat.mul_lt_mul_of_pos_right A_hi hd1'
  have s3 : d1 * w ≤ d1 * E := Nat.mul_le_mul_left d1 hw
  have s4 : d0 * w * E < (A + 2) * d1 * E := by nlinarith
  have s5 : d0 * w < (A + 2) * d1 := Nat.lt_of_mul_lt_mul_right s4
  have s6 : d0 * w * r1 < (A + 2) * d1 * r1 := Nat.mul_lt_mul_of_pos_right s5 hr1'
  have s7 : (A + 2) * d1 * r1 ≤ (B + 2) * d1 * r1 := by
    apply Nat.mul_le_mul_right; apply Nat.mul_le_mul_right; omega
  have s8 : B * r1 * d1 ≤ r0 * E * d1 := Nat.mul_le_mul_right d1 B_lo
  nlinarith

/-- `⌊r0·E/r1⌋ < ⌊⌊d0·E/d1⌋·w/E⌋` gives `r0·E/r1 < d0·w/d1` (cross-multiplied) -/
theorem complete_core {d0 d1 r0 r1 w : Nat} (hd1 : d1 ≠ 0) (hr1 : r1 ≠ 0)
    (h : r0 * E / r1 < d0 * E / d1 * w / E) :
    r0 * d1 * E < d0 * w * r1 := by
  have hd1' : 0 < d1 := Nat.pos_of_ne_zero hd1
  have hr1' : 0 < r1 := Nat.pos_of_ne_zero hr1
  have hE : 0 < E := E_pos
  generalize hq : d0 * E / d1 = q at h
  generalize hA : q * w / E = A at h
  generalize hB : r0 * E / r1 = B at h
  have q_lo : q * d1 ≤ d0 * E := by
    rw [← hq]; exact Nat.div_mul_le_self _ _
  have A_lo : A * E ≤ q * w := by
    rw [← hA]; exact Nat.div_mul_le_self _ _
  have B_hi : r0 * E < (B + 1) * r1 := by
    rw [← hB]; exact lt_succ_div_mul _ hr1'
  have s1 : A * E * d1 ≤ q * w * d1 := Nat.mul_le_mul_right d1 A_lo
  have s2 : q * d1 * w ≤ d0 * E * w := Nat.mul_le_mul_right w q_lo
  have s3 : A * d1 * E ≤ d0 * w * E := by nlinarith
  have s4 : A * d1 ≤ d0 * w := Nat.le_of_mul_le_mul_right s3 hE
  have s5 : (B + 1) * r1 ≤ A * r1 := Nat.mul_le_mul_right r1 h
  have s6 : r0 * E * d1 < A * r1 * d1 :=
    Nat.mul_lt_mul_of_pos_right (Nat.lt_of_lt_of_le B_hi s5) hd1'
  have s7 : A * d1 * r1 ≤ d0 * w * r1 := Nat.mul_le_mul_right r1 s4
  nlinarith

/-! ### the four statements -/

theorem slippage_sound {t d0 d1 r0 r1 : Nat}
    (h : assertSlippage (some t) d0 d1 r0 r1 = .ok ()) :
    Spec.c15Sound t d0 d1 r0 r1 = true := by
  unfold assertSlippage at h
  simp only at h
  split at h
  · simp at h
  · rename_i ht
    simp only [bind_ok_iff, Dec.sub_ok, calcPriceDrop_ok, calcSlippageTolerance_ok] at h
    obtain ⟨w, ⟨htE, rfl⟩, a, ⟨hd1, -, -, rfl⟩, b, ⟨hr1, -, rfl⟩, h⟩ := h
    split at h
    · simp at h
    · rename_i hab
      simp only [bind_ok_iff, calcPriceDrop_ok, calcSlippageTolerance_ok] at h
      obtain ⟨a', ⟨hd0, -, -, rfl⟩, b', ⟨hr0, -, rfl⟩, h⟩ := h
      split at h
      · simp at h
      · rename_i hab'
        have hw : E - t ≤ E := Nat.sub_le _ _
        have c1 := sound_core hd1 hr1 hw (Nat.le_of_not_lt hab)
        have c2 := sound_core hd0 hr0 hw (Nat.le_of_not_lt hab')
        simp only [Spec.c15Sound, Bool.and_eq_true, decide_eq_true_eq]
        exact ⟨⟨htE, c1⟩, c2⟩

theorem slippage_complete {t d0 d1 r0 r1 : Nat}
    (h : assertSlippage (some t) d0 d1 r0 r1 = .error .guard) :
    t ≤ E ∧ Spec.c15Complete t d0 d1 r0 r1 = true := by
  unfold assertSlippage at h
  simp only at h
  split at h
  · simp at h
  · rename_i ht
    refine ⟨Nat.le_of_not_lt ht, ?_⟩
    simp only [Spec.c15Complete, Bool.or_eq_true, decide_eq_true_eq]
    simp only [bind_error_iff] at h
    rcases h with h | ⟨w, hw, h⟩
    · exact absurd (decSub_err h) (by decide)
    obtain ⟨-, rfl⟩ := Dec.sub_ok.mp hw
    rcases h with h | ⟨a, ha, h⟩
    · exact absurd (calcPriceDrop_err h) (by decide)
    obtain ⟨hd1, -, -, rfl⟩ := calcPriceDrop_ok.mp ha
    rcases h with h | ⟨b, hb, h⟩
    · exact absurd (calcSlippageTolerance_err h) (by decide)
    obtain ⟨hr1, -, rfl⟩ := calcSlippageTolerance_ok.mp hb
    split at h
    · rename_i hab
      have c := complete_core hd1 hr1 hab
      left; omega
    · simp only [bind_error_iff] at h
      rcases h with h | ⟨a', ha', h⟩
      · exact absurd (calcPriceDrop_err h) (by decide)
      obtain ⟨hd0, -, -, rfl⟩ := calcPriceDrop_ok.mp ha'
      rcases h with h | ⟨b', hb', h⟩
      · exact absurd (calcSlippageTolerance_err h) (by decide)
      obtain ⟨hr0, -, rfl⟩ := calcSlippageTolerance_ok.mp hb'
      split at h
      · rename_i hab'
        have c := complete_core hd0 hr0 hab'
        right; omega
      · simp at h

theorem slippage_gt_one {t d0 d1 r0 r1 : Nat} (h : E < t) :
    assertSlippage (some t) d0 d1 r0 r1 = .error .err := by
  unfold assertSlippage
  simp only [h, if_true]

theorem slippage_no_abort {t d0 d1 r0 r1 : Nat} (ht : t ≤ E)
    (hd0 : 0 < d0) (hd1 : 0 < d1) (hr0 : 0 < r0) (hr1 : 0 < r1)
    (hd0W : d0 < W) (hd1W : d1 < W) (hr0W : r0 < W) (hr1W : r1 < W) :
    assertSlippage (some t) d0 d1 r0 r1 = .ok () ∨
      assertSlippage (some t) d0 d1 r0 r1 = .error .guard := by
  have hWEE : W * E * E < U := by decide
  have hE : 0 < E := E_pos
  have hw : E - t ≤ E := Nat.sub_le _ _
  -- every product stays below `2^256`
  have small : ∀ {x : Nat}, x < W → x * E < U ∧ ∀ y, x * E / y * (E - t) < U := by
    intro x hx
    have h1 : x * E < W * E := Nat.mul_lt_mul_of_pos_right hx hE
    have h2 : x * E * E < W * E * E := Nat.mul_lt_mul_of_pos_right h1 hE
    have h3 : x * E ≤ x * E * E := Nat.le_mul_of_pos_right _ hE
    refine ⟨by omega, fun y => ?_⟩
    have h4 : x * E / y * (E - t) ≤ x * E * E :=
      Nat.mul_le_mul (Nat.div_le_self _ _) hw
    omega
  have e1 : Dec.sub E t = .ok (E - t) := Dec.sub_ok.mpr ⟨ht, rfl⟩
  have e2 := calcPriceDrop_ok.mpr
    ⟨Nat.ne_of_gt hd1, (small hd0W).1, (small hd0W).2 d1, rfl⟩
  have e3 := calcSlippageTolerance_ok.mpr ⟨Nat.ne_of_gt hr1, (small hr0W).1, rfl⟩
  have e4 := calcPriceDrop_ok.mpr
    ⟨Nat.ne_of_gt hd0, (small hd1W).1, (small hd1W).2 d0, rfl⟩
  have e5 := calcSlippageTolerance_ok.mpr ⟨Nat.ne_of_gt hr0, (small hr1W).1, rfl⟩
  unfold assertSlippage
  simp only [Nat.not_lt.mpr ht, if_false, e1, e2, e3, e4, e5, bind, Except.bind]
  split
  · right; rfl
  · split
    · right; rfl
    · left; rfl

end Halo.C15
