import Halo.Num
import Halo.Formulas
import Halo.Spec
