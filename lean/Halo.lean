-- root of the `Halo` library: model, specification predicates, driver, theorems
import Halo.Num
import Halo.Formulas
import Halo.Spec
import Halo.Driver.Fn
import Halo.Proofs.Basic
import Halo.Props.C04
import Halo.Props.C05
import Halo.Props.C08
import Halo.Props.C09
import Halo.Props.C10
import Halo.Props.C12
import Halo.Props.C15
import Halo.Props.C01
import Halo.Props.C06
