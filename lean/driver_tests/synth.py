import subprocess, re, sys
DRV='/tmp/leanworkE/.lake/build/bin/halodriver'
hexs=lambda b: ''.join('%02x'%x for x in b)
setup=['begin seq=1 seed=1 family=from','fac 6 owner=0','router 7',
 'asset n0 raw=%s name=%s'%(hexs(b'n0'),hexs(b'n0')),'asset t8 raw=%s name=%s'%(hexs(b't8'),hexs(b't8')),
 'asset t12 raw=%s name=%s'%(hexs(b't12'),hexs(b't12')),
 'token 8 decimals=6 minter=0 supply=10000000','tbal 8 1 10000000','bank 1 0 10000000','bank 0 0 10','bank 2 0 0']
accts=[0,1,2,3,6,7,11,12]
keys=['owner']+['bal n0 %d'%a for a in accts]+['bal t8 %d'%a for a in accts]+['supply 8','allow 8 1 2','allow 8 1 11']
keys2=['bal t12 %d'%a for a in accts]+['supply 12','pair 11','pool 11','reg n0 t8','reg t8 n0','allow 12 1 2','listing']
steps=[l for l in open(sys.argv[1]).read().split('\n') if l.strip()]
vals={}
for k in keys: vals[(-1,k)]='0'
vals[(-1,'bal n0 0')]='10'; vals[(-1,'bal n0 1')]='10000000'; vals[(-1,'bal t8 1')]='10000000'; vals[(-1,'supply 8')]='10000000'
res={2:"ok created 11 12"}
def build():
    out=list(setup)
    out+=['obs %s => %s'%(k,vals.get((-1,k),'?')) for k in keys]
    for i,st in enumerate(steps):
        out.append('step seq=1 i=%d %s => %s'%(i+1,st,res.get(i,'?')))
        ks=[k for k in keys+keys2 if (i,k) in vals]
        if st.startswith('f_create') and res.get(i,'').startswith('ok'):
            ks=ks+[k for k in keys2 if k not in ks]
        for k in ks:
            out.append('obs %s => %s'%(k,vals.get((i,k),'?')))
    out.append('end seq=1')
    return out
for it in range(1500):
    lines=build()
    r=subprocess.run([DRV],input='\n'.join(lines)+'\n',capture_output=True,text=True).stdout
    div=[l for l in r.split('\n') if l.startswith('DIVERGE')]
    if not div: break
    d=div[0]
    m=re.match(r'DIVERGE \S+ model=(.*) :: step seq=1 i=(\d+) ',d)
    i=int(m.group(2))-1 if m else -1
    body=m.group(1) if m else re.match(r'DIVERGE \S+ model=(.*) :: ',d).group(1)
    if ': model=' in body:
        for part in body.split(';  '):
            mm=re.match(r'(.*): model=(.*) impl=(.*)$',part)
            vals[(i,mm.group(1))]=mm.group(2)
    else:
        res[i]=body
else:
    print('no convergence'); 
open(sys.argv[2],'w').write('\n'.join(lines)+'\n')
print(r)
for i,s in enumerate(steps): print(i+1,s,'=>',res.get(i))
