#!/bin/sh
# Build the framework from files on disk only (offline): Lean model + theorems + driver, Rust harness.
set -e
cd "$(dirname "$0")"
mkdir -p .work evidence evidence/replays
( cd lean && lake build Halo Halo.Tools.Audit halodriver )
[ -f harness/Cargo.lock ] || cp /repo/Cargo.lock harness/Cargo.lock
( cd harness && env -u RUSTFLAGS CARGO_NET_OFFLINE=true cargo build --release --offline )
echo "setup ok"
