import Mathlib.Data.List.Lex
import Mathlib.Tactic.Linarith

abbrev Key := List Nat

#check (inferInstance : LinearOrder (List Nat))

/-- the exclusive range start the factory derives from a cursor key -/
def rangeStart (c : Key) : Key := c ++ [1]

/-- `k` does not extend `c` by a suffix that starts with byte 0 or is exactly `[1]` -/
def NoLowExt1 (c k : Key) : Prop := (∀ s, k ≠ c ++ 0 :: s) ∧ k ≠ c ++ [1]

theorem lt_rangeStart (c : Key) : c < rangeStart c := by
  unfold rangeStart
  induction c with
  | nil => decide
  | cons a t ih => exact List.Lex.cons ih

theorem rangeStart_lt_iff (c k : Key) (h : NoLowExt1 c k) : rangeStart c < k ↔ c < k := by
  constructor
  · intro hk; exact lt_trans (lt_rangeStart c) hk
  · intro hk
    unfold rangeStart
    induction c generalizing k with
    | nil =>
      cases k with
      | nil => exact absurd hk (lt_irrefl _)
      | cons b t =>
        rcases Nat.lt_trichotomy b 1 with hb | hb | hb
        · have : b = 0 := by omega
          subst this; exact absurd rfl (h.1 t)
        · subst hb
          cases t with
          | nil => exact absurd rfl h.2
          | cons b' t' => exact List.Lex.cons (List.Lex.nil)
        · exact List.Lex.rel hb
    | cons a t ih =>
      cases k with
      | nil => cases hk
      | cons b u =>
        cases hk with
        | rel hab => exact List.Lex.rel hab
        | cons htu =>
          apply List.Lex.cons
          apply ih u _ htu
          constructor
          · intro s hs; exact h.1 s (by rw [hs]; rfl)
          · intro hs; exact h.2 (by rw [hs]; rfl)
#print axioms rangeStart_lt_iff

/-! ### the walk -/

def after (ks : List Key) : Option Key → List Key
  | none => ks
  | some c => ks.filter (fun k => decide (rangeStart c < k))

def page (ks : List Key) (c : Option Key) (lim : Nat) : List Key := (after ks c).take lim

def walk (ks : List Key) (lim : Nat) : Nat → Option Key → List Key
  | 0, _ => []
  | f+1, c =>
    let pg := page ks c lim
    if pg = [] then [] else pg ++ walk ks lim f pg.getLast?

def NoLowExt (ks : List Key) : Prop := ∀ c ∈ ks, ∀ k ∈ ks, NoLowExt1 c k

theorem after_split (pre post : List Key) (c : Key)
    (hs : (pre ++ c :: post).Pairwise (· < ·)) (hn : NoLowExt (pre ++ c :: post)) :
    after (pre ++ c :: post) (some c) = post := by
  show List.filter _ _ = post
  have hcmem : c ∈ pre ++ c :: post := by simp
  have key : ∀ k ∈ pre ++ c :: post, (rangeStart c < k ↔ c < k) :=
    fun k hk => rangeStart_lt_iff c k (hn c hcmem k hk)
  rw [List.pairwise_append] at hs
  obtain ⟨_, hcp, hpre⟩ := hs
  rw [List.pairwise_cons] at hcp
  rw [List.filter_append, List.filter_cons]
  have h1 : pre.filter (fun k => decide (rangeStart c < k)) = [] := by
    rw [List.filter_eq_nil_iff]
    intro k hk
    have hkc : k < c := hpre k hk c (by simp)
    have : ¬ c < k := not_lt.mpr (le_of_lt hkc)
    simp [key k (by simp [hk]), this]
  have h2 : ¬ rangeStart c < c := fun h => lt_irrefl _ (lt_trans (lt_rangeStart c) h)
  have h3 : post.filter (fun k => decide (rangeStart c < k)) = post := by
    rw [List.filter_eq_self]
    intro k hk
    simp [key k (by simp [hk]), hcp.1 k hk]
  simp [h1, h2, h3]

theorem walk_from (lim : Nat) (hl : 0 < lim) :
    ∀ (n : Nat) (pre post : List Key) (f : Nat),
      post.length ≤ n → post.length + 1 ≤ f →
      (pre ++ post).Pairwise (· < ·) → NoLowExt (pre ++ post) →
      after (pre ++ post) pre.getLast? = post →
      walk (pre ++ post) lim f pre.getLast? = post := by
  intro n
  induction n with
  | zero =>
    intro pre post f hn hf _ _ hafter
    have : post = [] := List.eq_nil_of_length_eq_zero (by omega)
    subst this
    obtain ⟨f', rfl⟩ : ∃ f', f = f' + 1 := ⟨f - 1, by omega⟩
    simp only [List.append_nil] at hafter ⊢
    simp [walk, page, hafter]
  | succ n ih =>
    intro pre post f hn hf hs hno hafter
    obtain ⟨f', rfl⟩ : ∃ f', f = f' + 1 := ⟨f - 1, by omega⟩
    cases hpost : post with
    | nil =>
      subst hpost
      simp only [List.append_nil] at hafter ⊢
      simp [walk, page, hafter]
    | cons p ps =>
      subst hpost
      -- the page is a non-empty prefix of `post`
      have hpg : page (pre ++ p :: ps) pre.getLast? lim = (p :: ps).take lim := by
        unfold page; rw [hafter]
      obtain ⟨m, rfl⟩ : ∃ m, lim = m + 1 := ⟨lim - 1, by omega⟩
      have htake : (p :: ps).take (m+1) = p :: ps.take m := rfl
      -- split post = pg ++ rest with pg = init ++ [c]
      set pg := p :: ps.take m with hpgdef
      set rest := ps.drop m with hrest
      have hsplit : p :: ps = pg ++ rest := by simp [hpgdef, hrest]
      have hne : pg ≠ [] := by simp [hpgdef]
      obtain ⟨ini, c, hic⟩ : ∃ ini c, pg = ini ++ [c] :=
        ⟨pg.dropLast, pg.getLast hne, (List.dropLast_append_getLast hne).symm⟩
      have hlast : pg.getLast? = some c := by rw [hic]; simp
      have hwhole : pre ++ p :: ps = (pre ++ ini) ++ c :: rest := by
        rw [hsplit, hic]; simp
      unfold walk
      simp only [hpg, htake, ← hpgdef, hne, if_false, hlast]
      have hrec : walk (pre ++ p :: ps) (m+1) f' (some c) = rest := by
        have h1 := ih (pre ++ ini ++ [c]) rest f' (by
            have : (p :: ps).length = pg.length + rest.length := by rw [hsplit]; simp
            have hp : 1 ≤ pg.length := by simp [hpgdef]
            simp at hn this ⊢; omega) (by
            have : (p :: ps).length = pg.length + rest.length := by rw [hsplit]; simp
            have hp : 1 ≤ pg.length := by simp [hpgdef]
            simp at hf this ⊢; omega)
        have e : pre ++ ini ++ [c] ++ rest = pre ++ p :: ps := by rw [hwhole]; simp
        rw [e] at h1
        have hl' : (pre ++ ini ++ [c]).getLast? = some c := by simp
        rw [hl'] at h1
        apply h1 hs hno
        rw [hwhole]
        exact after_split (pre ++ ini) rest c (by rw [← hwhole]; exact hs) (by rw [← hwhole]; exact hno)
      rw [hrec, hsplit]

theorem walk_complete (ks : List Key) (lim f : Nat) (hl : 0 < lim) (hf : ks.length + 1 ≤ f)
    (hs : ks.Pairwise (· < ·)) (hno : NoLowExt ks) :
    walk ks lim f none = ks := by
  have := walk_from lim hl ks.length [] ks f (le_refl _) hf (by simpa using hs) (by simpa using hno)
    (by simp [after])
  simpa using this

#print axioms walk_complete
