import Mathlib.Tactic.Linarith
import Mathlib.Tactic.Ring
import Mathlib.Tactic.Positivity
import Mathlib.Tactic.FieldSimp
import Mathlib.Tactic.Zify
import Mathlib.Tactic.Qify
import Mathlib.Data.Rat.Defs
import Mathlib.Algebra.Order.Field.Basic

/-- integer (cross-multiplied) form of  g(1-γ) - 1 < n < g(1-γ) + 1,  g = y a / D, γ = c / E -/
theorem c06_int (E D ya c cc G k n r : ℤ)
    (hE : 0 < E) (hD : 0 < D) (hya : 0 ≤ ya) (hc0 : 0 ≤ c) (hcc0 : 0 ≤ cc) (hcE : c + cc = E)
    (hr0 : 0 ≤ r) (hr : r < D) (hG0 : 0 ≤ G)
    (hG1 : G * (D * E) ≤ ya * E + r) (hG2 : ya * E + r < (G + 1) * (D * E))
    (hk1 : k * E ≤ G * c) (hk2 : G * c < (k + 1) * E) (hn : n + k = G) :
    ya * cc < (n + 1) * (D * E) ∧ n * (D * E) < ya * cc + D * E := by
  have hn' : n = G - k := by linarith
  subst hn'
  constructor
  · -- lower bound
    -- (G+1) D E > ya E  ⇒ (G+1) D > ya ; then multiply by cc ≤ E
    have h1 : ya < (G + 1) * D := by
      by_contra h
      push Not at h
      have : (G + 1) * D * E ≤ ya * E := mul_le_mul_of_nonneg_right h hE.le
      nlinarith
    -- (G - k) E ≥ G E - G c = G cc
    have h2 : G * cc ≤ (G - k) * E := by nlinarith
    -- ya cc ≤ ya cc ... want ya*cc < (G-k+1) D E
    have h3 : ya * cc ≤ (G + 1) * D * cc - cc := by nlinarith
    rcases eq_or_lt_of_le hcc0 with hz | hpos
    · -- cc = 0
      rw [← hz]; simp
      have : 0 ≤ G - k := by nlinarith
      positivity
    · have h4 : ya * cc < (G + 1) * D * cc := by nlinarith
      have h5 : (G + 1) * D * cc = G * cc * D + D * cc := by ring
      have h6 : G * cc * D ≤ (G - k) * E * D := mul_le_mul_of_nonneg_right h2 hD.le
      have h7 : D * cc ≤ D * E := by nlinarith
      nlinarith
  · -- upper bound: (G-k) E ≤ G cc + E - 1
    have h1 : (G - k) * E ≤ G * cc + E - 1 := by nlinarith
    have h2 : G * (D * E) * cc ≤ (ya * E + r) * cc := mul_le_mul_of_nonneg_right hG1 hcc0
    have h3 : r * cc ≤ r * E := by nlinarith
    have h4 : (G - k) * E * (D * E) ≤ (G * cc + E - 1) * (D * E) :=
      mul_le_mul_of_nonneg_right h1 (by positivity)
    have h5 : (G - k) * (D * E) * E < (ya * cc + D * E) * E := by nlinarith
    exact lt_of_mul_lt_mul_right h5 hE.le

#print axioms c06_int
