/-! miniature of the N5 style: functional ledger, Except handlers, effect + frame lemma (core Lean only) -/

inductive Err | insufficient | zero | mismatch | other
  deriving DecidableEq, Repr
deriving instance DecidableEq for Except
abbrev M := Except Err

abbrev Addr := String
abbrev Denom := String

structure World where
  bank : Addr → Denom → Nat

def bankMove (w : World) (src dst : Addr) (d : Denom) (amt : Nat) : M World :=
  if amt = 0 then .error .zero
  else if w.bank src d < amt then .error .insufficient
  else
    let b1 : Addr → Denom → Nat := fun a x => if a = src ∧ x = d then w.bank a x - amt else w.bank a x
    .ok { w with bank := fun a x => if a = dst ∧ x = d then b1 a x + amt else b1 a x }

@[simp] theorem bind_ok_iff {α β} (x : M α) (f : α → M β) (b : β) :
    (x >>= f) = .ok b ↔ ∃ a, x = .ok a ∧ f a = .ok b := by
  cases x <;> simp [bind, Except.bind]

theorem bankMove_ok {w w' : World} {src dst d amt} (h : bankMove w src dst d amt = .ok w') :
    amt ≠ 0 ∧ amt ≤ w.bank src d ∧
    ∀ a x, w'.bank a x =
      (if a = dst ∧ x = d then (if a = src ∧ x = d then w.bank a x - amt else w.bank a x) + amt
       else if a = src ∧ x = d then w.bank a x - amt else w.bank a x) := by
  unfold bankMove at h
  split at h <;> try contradiction
  split at h <;> try contradiction
  injection h with h; subst h
  refine ⟨by assumption, by omega, ?_⟩
  intro a x; rfl

/-- toy pair: pays out `price x y a` of denom `ask` after the caller attached `a` of `offer` -/
def toySwap (price : Nat → Nat → Nat → Nat) (w : World) (pair user : Addr) (offer ask : Denom) (a : Nat) : M (World × Nat) := do
  let w1 ← bankMove w user pair offer a               -- funds are moved first
  let x := w1.bank pair offer - a                      -- credited offer is subtracted before pricing
  let y := w1.bank pair ask
  let n := price x y a
  if n = 0 then return (w1, 0)
  let w2 ← bankMove w1 pair user ask n
  return (w2, n)

theorem toySwap_effect (price) (w w' : World) (pair user offer ask a n)
    (hne : offer ≠ ask) (hpu : pair ≠ user)
    (h : toySwap price w pair user offer ask a = .ok (w', n)) :
    n = price (w.bank pair offer) (w.bank pair ask) a ∧
    w'.bank pair offer = w.bank pair offer + a ∧
    w'.bank pair ask = w.bank pair ask - n ∧
    w'.bank user ask = w.bank user ask + n ∧
    (∀ z x, z ≠ pair → z ≠ user → w'.bank z x = w.bank z x) := by
  unfold toySwap at h
  simp only [bind_ok_iff] at h
  obtain ⟨w1, h1, h⟩ := h
  obtain ⟨ha0, hale, hb1⟩ := bankMove_ok h1
  have hx : w1.bank pair offer - a = w.bank pair offer := by
    rw [hb1]; simp [hpu]
  have hy : w1.bank pair ask = w.bank pair ask := by
    rw [hb1]; simp [hne.symm]
  split at h
  · rename_i hn0
    simp only [pure, Except.pure, Except.ok.injEq, Prod.mk.injEq] at h
    obtain ⟨rfl, rfl⟩ := h
    rw [hx, hy] at hn0
    refine ⟨by rw [hn0], ?_, ?_, ?_, ?_⟩
    · rw [hb1]; simp [hpu]
    · rw [hb1]; simp [hne.symm]
    · rw [hb1]; simp [hne.symm, hpu]
    · intro z x hz1 hz2; rw [hb1]; simp [hz1, hz2]
  · simp only [bind_ok_iff] at h
    obtain ⟨w2, h2, h⟩ := h
    simp only [pure, Except.pure, Except.ok.injEq, Prod.mk.injEq] at h
    obtain ⟨rfl, rfl⟩ := h
    obtain ⟨hn0, hnle, hb2⟩ := bankMove_ok h2
    rw [hx, hy] at hb2 hnle ⊢
    refine ⟨rfl, ?_, ?_, ?_, ?_⟩
    · rw [hb2, hb1]; simp [hpu, hne, Ne.symm hpu]
    · rw [hb2, hb1]; simp [hpu, hne.symm, Ne.symm hpu]
    · rw [hb2, hb1]; simp [hpu, hne.symm, Ne.symm hpu]
    · intro z x hz1 hz2; rw [hb2, hb1]; simp [hz1, hz2]

#print axioms toySwap_effect
