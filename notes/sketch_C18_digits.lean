import Mathlib.Tactic.Linarith
import Mathlib.Tactic.Ring

/-- least-significant-first decimal digits; `[0]` for zero -/
def digitsRev (n : Nat) : List Nat :=
  if n < 10 then [n] else (n % 10) :: digitsRev (n / 10)
termination_by n
decreasing_by omega

def digits (n : Nat) : List Nat := (digitsRev n).reverse

/-- what `from_dec_str` computes (most significant first), without the overflow check -/
def valDigits (ds : List Nat) : Nat := ds.foldl (fun acc d => acc * 10 + d) 0

theorem valDigits_snoc (ds : List Nat) (d : Nat) : valDigits (ds ++ [d]) = valDigits ds * 10 + d := by
  simp [valDigits, List.foldl_append]

theorem val_digits (n : Nat) : valDigits (digits n) = n := by
  induction n using Nat.strong_induction_on with
  | _ n ih =>
    unfold digits
    rw [digitsRev]
    split
    · simp [valDigits]
    · rename_i h
      rw [List.reverse_cons, valDigits_snoc]
      have := ih (n / 10) (by omega)
      unfold digits at this
      rw [this]; omega

theorem digits_lt_ten (n : Nat) : ∀ d ∈ digits n, d < 10 := by
  induction n using Nat.strong_induction_on with
  | _ n ih =>
    unfold digits
    rw [digitsRev]
    split
    · intro d hd; simp at hd; omega
    · intro d hd
      simp only [List.reverse_cons, List.mem_append, List.mem_reverse, List.mem_singleton] at hd
      rcases hd with hd | hd
      · exact ih (n/10) (by omega) d (by unfold digits; simpa using hd)
      · omega

theorem digits_length_le (n k : Nat) (hk : 0 < k) (h : n < 10 ^ k) : (digits n).length ≤ k := by
  induction k generalizing n with
  | zero => omega
  | succ k ih =>
    unfold digits; rw [digitsRev]
    split
    · simp
    · rename_i h10
      have hk' : 0 < k := by
        rcases k with _ | k
        · simp at h; omega
        · omega
      have : n / 10 < 10 ^ k := by
        rw [Nat.div_lt_iff_lt_mul (by omega)]; rw [pow_succ] at h; omega
      have := ih (n/10) hk' this
      unfold digits at this
      simp at this ⊢; omega

/-- leading zeros do not change the value (padding), trailing zeros multiply by ten (trimming) -/
theorem valDigits_pad (k : Nat) (ds : List Nat) : valDigits (List.replicate k 0 ++ ds) = valDigits ds := by
  induction k with
  | zero => simp
  | succ k ih =>
    rw [List.replicate_succ, List.cons_append]
    have : ∀ l, valDigits (0 :: l) = valDigits l := by intro l; simp [valDigits]
    rw [this, ih]

theorem valDigits_trail (ds : List Nat) (k : Nat) : valDigits (ds ++ List.replicate k 0) = valDigits ds * 10 ^ k := by
  induction k with
  | zero => simp
  | succ k ih =>
    rw [List.replicate_succ', ← List.append_assoc, valDigits_snoc, ih, pow_succ]; ring

#print axioms val_digits
#print axioms valDigits_trail
