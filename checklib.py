"""
Per-property plan: which correspondence families feed the property (a divergence in any of them
counts against it, DESIGN §5), with case counts per tier.
  ("fn", family, quick_n, thorough_n)            function families — n generated cases
  ("world", family, (nseq, nsteps), (nseq, nsteps)) world families — operation sequences
"""

COMMON_ASSUME = [
    "the Lean model is hand-written; its agreement with /repo is checked by differential execution on generated inputs, not proved",
    "bigint::U256 operators are exact-or-panic; cosmwasm_std Uint128/Decimal as modelled in Halo/Num.lean (exercised by the bignum/refund/lp_share families)",
]
WORLD_ASSUME = [
    "environment: cw-multi-test 0.16.1 bank/wasm dispatcher (funds moved before the call, depth-first in-order sub-messages, whole-transaction atomicity) and cw20-base 1.0.0 token semantics, as modelled in Halo/World.lean",
    "contract addresses (pairs, LP tokens, router, factory) originate no operations other than those their code emits",
]

def fn(fam, q, t):
    return ("fn", fam, q, t)

def world(fam, q, t):
    return ("world", fam, q, t)

# theorem modules shared between properties: the rational-number reading of the Spec predicates
EXTRA_MODULES = {p: ["Halo.Props.Rational"] for p in ("C01", "C03", "C04", "C05", "C06", "C10", "C12", "C15", "C20")}

# … and the non-vacuity examples (a concrete world meeting the hypotheses of the world-level theorems)
for _p in ("C02", "C03", "C13", "C16", "C20"):
    EXTRA_MODULES.setdefault(_p, []).append("Halo.Props.Examples")

WQ, WT = (25, 60), (1000, 120)        # world families: (sequences, steps per sequence) quick / thorough

# a divergence on a world step counts against the properties whose obligations that operation kind carries
# (DESIGN §4, attribution by operation kind); query lines likewise
KIND_PROPS = {
    "pair_swap":    {"C01", "C02", "C03", "C06", "C07", "C09", "C10", "C12", "C14"},
    "tok_send":     {"C01", "C02", "C03", "C04", "C06", "C07", "C10", "C11", "C12", "C13", "C14", "C20"},
    "pair_provide": {"C03", "C05", "C07", "C09", "C15"},
    "pair_receive": {"C02", "C03", "C07", "C14"},
    "pair_upd":     {"C14", "C17"},
    "r_ops":        {"C01", "C03", "C07", "C11", "C12", "C13"},
    "r_op":         {"C07", "C13", "C14"},
    "r_assert":     {"C11", "C14"},
    "r_receive":    {"C07", "C11", "C13", "C14"},
    "f_cfg":        {"C14"},
    "f_create":     {"C14", "C16", "C19"},
    "f_add":        {"C14", "C16", "C17"},
    "f_mig":        {"C14"},
    "bank_send":    {"C03", "C07"},
    "tok_transfer": {"C03", "C07"},
    "tok_inc":      {"C07"},
    "tok_burn":     {"C03", "C07"},
    # a third party using an allowance (cw20 TransferFrom / SendFrom / BurnFrom), the owner shrinking it
    "tok_xfer_from": {"C03", "C07"},
    "tok_send_from": {"C01", "C02", "C03", "C04", "C06", "C07", "C10", "C11", "C12", "C13", "C14", "C20"},
    "tok_burn_from": {"C03", "C07"},
    "tok_dec":      {"C07"},
    "query:sim":    {"C01", "C06", "C12"},
    "query:rsim":   {"C12"},
    "query:rsimops": {"C12", "C13"},
    "query:rrev":   {"C12", "C13"},
    "query:rsimcomp": {"C12"},
    "query:rrevcomp": {"C12"},
    "query:pairs":  {"C19"},
    "query:lookup": {"C16"},
}

def kind_of_case(case):
    """operation kind of a world line (`step seq=.. i=.. <kind> …` / `query seq=.. <kind> …`), None for fn lines"""
    t = case.split()
    if len(t) > 3 and t[0] == "step":
        return t[3]
    if len(t) > 2 and t[0] == "query":
        return "query:" + t[2]
    return None

def counts_against(pid, case):
    k = kind_of_case(case)
    if k is None:
        return True
    return pid in KIND_PROPS.get(k, {pid})

WORLD_RULE = ("operation sequences on a cw-multi-test world (factory, router, 3 cw20s + upper-case aliases, 13 denoms (colliding under concatenation, equal to token addresses, long shared prefixes, case variants), 2-5 pairs of all kinds, "
              "6 accounts incl. bystanders with open allowances): mostly-valid operations generated against the live state plus a malformed stream "
              "(wrong asset/amount/funds, forged Receive, unauthorised callers, malformed routes), third parties acting through user-to-user allowances (TransferFrom / SendFrom with hooks / BurnFrom / DecreaseAllowance); every step's result and the full changed ledger are compared with the model; "
              "non-trivial = implementation accepted the step; distinct by line hash")

PLAN = {
    "C01": {
        "families": [fn("compute_swap", 200000, 5000000), world("swap", WQ, WT), world("route", WQ, WT)],
        "rule": "compute_swap cases: magnitude-stratified 128-bit operands + in-window solver (y*a ≡ -j mod x+a, j*E < x+a) + quotient-zero region + x*y*E overflow frontier; non-trivial = model result ok; distinct by line hash",
        "assumptions": COMMON_ASSUME,
    },
    "C06": {
        "families": [fn("compute_swap", 200000, 5000000), world("swap", WQ, WT)],
        "rule": "compute_swap and compute_swap_mono cases (same generator as C01; every 8th case paired with a larger offer); non-trivial = model result ok; distinct by line hash",
        "assumptions": COMMON_ASSUME,
    },
    "C04": {
        "families": [fn("refund", 100000, 3000000), world("liquidity", WQ, WT)],
        "rule": "refund cases r,a,S: 128-bit stratified reserves, burn amounts at 1, S-1, S, random fraction of S; non-trivial = model result ok",
        "assumptions": COMMON_ASSUME,
    },
    "C05": {
        "families": [fn("lp_share", 100000, 3000000), world("liquidity", WQ, WT)],
        "rule": "lp_share cases: empty-pool branch with whitelist in/out × minimum below/at/above × product at 2^128; positive branch with balanced/unbalanced deposits and remainder-boundary solver",
        "assumptions": COMMON_ASSUME,
    },
    "C08": {
        "families": [fn("bignum", 100000, 10000000)],
        "rule": "every public Uint256/Decimal256 operator, constructor, comparison and conversion on 256-bit operands structured around limb boundaries, factor pairs at 2^256-1/2^256/2^256+1, powers of ten, zero divisors; model computes with Lean GMP naturals",
        "assumptions": COMMON_ASSUME,
    },
    "C09": {
        "families": [fn("assert_sent", 1, 1), world("swap", WQ, WT), world("liquidity", WQ, WT)],
        "rule": "finite matrix enumerated completely: asset kind × declared amount × (matching coin absent / position / amount less, equal, more, zero) × extra unrelated coins × duplicated denom",
        "assumptions": COMMON_ASSUME,
    },
    "C10": {
        "families": [fn("max_spread", 60000, 2000000), world("swap", WQ, WT)],
        "rule": "assert_max_spread on all 20×20 decimal pairs × both branches, values solved to sit within ±2 ulp of the limit, zero price, zero return+spread, decimals beyond 19",
        "assumptions": COMMON_ASSUME,
    },
    "C12": {
        "families": [fn("compute_offer_amount", 100000, 3000000), world("swap", WQ, WT), world("route", WQ, WT)],
        "rule": "compute_offer_amount cases: stratified reserves, asks around the feasibility frontier y*(1-c), rates incl. 0, 1-1e-18, 1, >1",
        "assumptions": COMMON_ASSUME,
    },
    "C15": {
        "families": [fn("slippage", 100000, 3000000), world("liquidity", WQ, WT)],
        "rule": "assert_slippage_tolerance cases: deposits solved so that (d_i/d_j)(1-t) sits within ±2 ulp of r_i/r_j in both directions, balanced deposits, zero deposits/reserves, tolerances incl. 0, 1, >1",
        "assumptions": COMMON_ASSUME,
    },
    "C02": {
        "families": [world("swap", WQ, WT), world("mixed", WQ, WT)],
        "rule": WORLD_RULE + "; swap steps cross (asset delivered) x (asset named) x (amount named) x (attached funds) x receiver, direct and hook",
        "assumptions": COMMON_ASSUME + WORLD_ASSUME,
    },
    "C03": {
        "families": [world("mixed", WQ, WT), world("swap", WQ, WT), world("liquidity", WQ, WT), world("route", WQ, WT)],
        "rule": WORLD_RULE + "; after every step (accepted or rejected) reserve0*reserve1/S^2 of every pair is compared by exact cross-multiplication",
        "assumptions": COMMON_ASSUME + WORLD_ASSUME,
    },
    "C07": {
        "families": [world("mixed", WQ, WT), world("liquidity", WQ, WT), world("route", WQ, WT), world("auth", WQ, WT)],
        "rule": WORLD_RULE + "; the full ledger (all accounts x all assets, supplies, allowances) is diffed around every step against the permitted set",
        "assumptions": COMMON_ASSUME + WORLD_ASSUME,
    },
    "C11": {
        "families": [world("route", WQ, WT), world("mixed", WQ, WT)],
        "rule": WORLD_RULE + "; routes of 1-4 hops, both entry points, minimum_receive at quote-1/quote/quote+1/0/max, other traders' swaps between quote and execution",
        "assumptions": COMMON_ASSUME + WORLD_ASSUME,
    },
    "C13": {
        "families": [fn("assert_operations", 20000, 500000), world("route", WQ, WT)],
        "rule": WORLD_RULE + "; plus assert_operations on hop lists over asset texts shared between denoms and token addresses",
        "assumptions": COMMON_ASSUME + WORLD_ASSUME,
    },
    "C14": {
        "families": [world("auth", WQ, WT), world("factory", WQ, WT), world("mixed", WQ, WT)],
        "rule": WORLD_RULE + "; every execute variant of the three contracts from owner / former owner / stranger / hook-delivering cw20s, before and after ownership transfer",
        "assumptions": COMMON_ASSUME + WORLD_ASSUME,
    },
    "C16": {
        "families": [fn("pair_key", 20000, 1000000), world("factory", WQ, WT), world("mixed", WQ, WT)],
        "rule": "pair_key on all ordered pairs and all pairs of unordered sets over a pool of identifiers built to collide under concatenation (shared prefixes, equal text in different kinds, real MockApi-canonical bytes); " + WORLD_RULE,
        "assumptions": COMMON_ASSUME + WORLD_ASSUME,
    },
    "C17": {
        "families": [world("factory", WQ, WT)],
        "rule": WORLD_RULE + "; factory family: up to 47 pairs over 13 denoms and 3 tokens, decimals re-registrations interleaved with creations",
        "assumptions": COMMON_ASSUME + WORLD_ASSUME,
    },
    "C18": {
        "families": [fn("text", 6000, 1000000)],
        "rule": "all strings over {0,1,5,9,.,x,-} up to length 5 (7 in thorough) exhaustively through from_str/try_from/serde; structured 256-bit values (limb boundaries, powers of ten, leading/trailing fractional zeros, maxima) through to_string / round trips / JSON; 77-80 digit wholes; 17/18/19 fractional digits; width conversions",
        "assumptions": COMMON_ASSUME + ["serde-json-wasm string encoding/decoding as modelled in Halo/Text.lean (JSON escapes are modelled (serde-json-wasm's unescaper) and generated)"],
    },
    "C19": {
        "families": [fn("read_pairs", 3000, 100000), world("factory", WQ, WT)],
        "rule": "read_pairs over real MockStorage/PAIRS: registries of 0-40 pairs over shared-prefix denoms and canonical addresses, page sizes 1-40 and absent, registered and unregistered cursors in both orders, complete walks; NoLowExt evaluated on the real keys; " + WORLD_RULE,
        "assumptions": COMMON_ASSUME + WORLD_ASSUME,
    },
    "C20": {
        "families": [world("liquidity", WQ, WT), world("mixed", WQ, WT)],
        "rule": WORLD_RULE + "; withdrawal attempts after every kind of prefix (donations, extreme swaps, further provisions, LP transfers); the oracle demands success whenever the entitlement condition holds in the observed state",
        "assumptions": COMMON_ASSUME + WORLD_ASSUME,
    },
}
