"""
Per-property plan: which correspondence families feed the property (a divergence in any of them
counts against it, DESIGN §5), with case counts per tier.
  ("fn", family, quick_n, thorough_n)            function families — n generated cases
  ("world", family, (nseq, nsteps), (nseq, nsteps)) world families — operation sequences
"""

COMMON_ASSUME = [
    "the Lean model is hand-written; its agreement with /repo is checked by differential execution on generated inputs, not proved",
    "bigint::U256 operators are exact-or-panic; cosmwasm_std Uint128/Decimal as modelled in Halo/Num.lean (exercised by the bignum/refund/lp_share families)",
]
WORLD_ASSUME = [
    "environment: cw-multi-test 0.16.1 bank/wasm dispatcher (funds moved before the call, depth-first in-order sub-messages, whole-transaction atomicity) and cw20-base 1.0.0 token semantics, as modelled in Halo/World.lean",
    "contract addresses (pairs, LP tokens, router, factory) originate no operations other than those their code emits",
]

def fn(fam, q, t):
    return ("fn", fam, q, t)

def world(fam, q, t):
    return ("world", fam, q, t)

PLAN = {
    "C01": {
        "families": [fn("compute_swap", 200000, 5000000)],
        "rule": "compute_swap cases: magnitude-stratified 128-bit operands + in-window solver (y*a ≡ -j mod x+a, j*E < x+a) + quotient-zero region + x*y*E overflow frontier; non-trivial = model result ok; distinct by line hash",
        "assumptions": COMMON_ASSUME,
    },
    "C06": {
        "families": [fn("compute_swap", 200000, 5000000)],
        "rule": "compute_swap and compute_swap_mono cases (same generator as C01; every 8th case paired with a larger offer); non-trivial = model result ok; distinct by line hash",
        "assumptions": COMMON_ASSUME,
    },
    "C04": {
        "families": [fn("refund", 100000, 3000000)],
        "rule": "refund cases r,a,S: 128-bit stratified reserves, burn amounts at 1, S-1, S, random fraction of S; non-trivial = model result ok",
        "assumptions": COMMON_ASSUME,
    },
    "C05": {
        "families": [fn("lp_share", 100000, 3000000)],
        "rule": "lp_share cases: empty-pool branch with whitelist in/out × minimum below/at/above × product at 2^128; positive branch with balanced/unbalanced deposits and remainder-boundary solver",
        "assumptions": COMMON_ASSUME,
    },
    "C08": {
        "families": [fn("bignum", 300000, 10000000)],
        "rule": "every public Uint256/Decimal256 operator, constructor, comparison and conversion on 256-bit operands structured around limb boundaries, factor pairs at 2^256-1/2^256/2^256+1, powers of ten, zero divisors; model computes with Lean GMP naturals",
        "assumptions": COMMON_ASSUME,
    },
    "C09": {
        "families": [fn("assert_sent", 1, 1)],
        "rule": "finite matrix enumerated completely: asset kind × declared amount × (matching coin absent / position / amount less, equal, more, zero) × extra unrelated coins × duplicated denom",
        "assumptions": COMMON_ASSUME,
    },
    "C10": {
        "families": [fn("max_spread", 60000, 2000000)],
        "rule": "assert_max_spread on all 20×20 decimal pairs × both branches, values solved to sit within ±2 ulp of the limit, zero price, zero return+spread, decimals beyond 19",
        "assumptions": COMMON_ASSUME,
    },
    "C12": {
        "families": [fn("compute_offer_amount", 100000, 3000000)],
        "rule": "compute_offer_amount cases: stratified reserves, asks around the feasibility frontier y*(1-c), rates incl. 0, 1-1e-18, 1, >1",
        "assumptions": COMMON_ASSUME,
    },
    "C15": {
        "families": [fn("slippage", 100000, 3000000)],
        "rule": "assert_slippage_tolerance cases: deposits solved so that (d_i/d_j)(1-t) sits within ±2 ulp of r_i/r_j in both directions, balanced deposits, zero deposits/reserves, tolerances incl. 0, 1, >1",
        "assumptions": COMMON_ASSUME,
    },
}
