#!/bin/bash
# try_seed.sh <abs path of patch.diff> <property>...  — apply a seeded change to /repo, run the quick checks, undo it
# straight afterwards.  Serialised against other users of /repo's working tree through /tmp/repo.lock.
set -u
PATCH=$1; shift
exec 9>/tmp/repo.lock
flock 9
cd /repo
git diff --quiet || { echo "/repo is dirty"; exit 2; }
git apply "$PATCH" || { echo "patch does not apply"; exit 2; }
trap 'git -C /repo checkout -- . ; git -C /repo clean -fdq -- contracts packages >/dev/null 2>&1' EXIT
for p in "$@"; do
  ( cd /verif && ./check "$p" 2>&1 | grep -E "^(VIOLATION|OK|KNOWN)" | cut -c1-220 )
done
