#!/usr/bin/env python3
"""save_seed.py <seed id> <worktree> <property> <needs> <detected-by> [<note>] — store a confirmed seeded change under /verif/seeded/<id>/"""
import sys, os, shutil, json, subprocess
sid, wt, prop, needs, detected = sys.argv[1:6]
note = sys.argv[6] if len(sys.argv) > 6 else ""
d = os.path.join("/verif/seeded", sid)
os.makedirs(d, exist_ok=True)
for f in ("patch.diff", "demo.diff", "README.md"):
    shutil.copy(os.path.join(wt, "SEEDED", f), os.path.join(d, f))
base = subprocess.run(["git", "-C", "/repo", "rev-parse", "--short", "HEAD"], capture_output=True, text=True).stdout.strip()
meta = {
    "id": sid, "breaks_property": prop, "base_commit": base,
    "needs_to_manifest": needs,
    "confirmed": "tools/verify_seed.sh <worktree>: with the change the 101 baseline tests pass and the demonstration fails; without it the demonstration passes",
    "ran": f"tools/try_seed.sh seeded/{sid}/patch.diff {prop}   (git -C /repo apply; ./check {prop}; git -C /repo checkout -- .)",
    "detected_by": detected, "note": note,
}
json.dump(meta, open(os.path.join(d, "meta.json"), "w"), indent=1)
print("saved", d)
