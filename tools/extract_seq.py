#!/usr/bin/env python3
"""extract_seq.py <lines file> <seq> [<last step index i>]  — the replayable part (begin / step / query / end) of one sequence"""
import sys, re
f, seq = sys.argv[1], sys.argv[2]
last = int(sys.argv[3]) if len(sys.argv) > 3 else None
keep = False
for l in open(f):
    if l.startswith("begin "):
        keep = re.search(r"\bseq=(\d+)", l).group(1) == seq
    if not keep:
        continue
    if l.startswith(("begin ", "step ", "query ")):
        m = re.match(r"step seq=\d+ i=(\d+)", l)
        if m and last is not None and int(m.group(1)) > last:
            print(f"end seq={seq}")
            break
        print(l.rstrip("\n"))
    if l.startswith("end "):
        print(l.rstrip("\n"))
        break
