#!/usr/bin/env python3
"""Regenerates /verif/corpus/*.txt (witnesses of the defects found, replayed first on every run).
The files name accounts by the harness' numbering, which follows the order of creation in world.rs::setup:
users 0..5 (0 = owner), factory 6, router 7, tokens 8 9 10, upper-case aliases 11 12 13, then pairs and LP
tokens in creation order (first pair 14, its LP token 15, …).  Re-run this script if that layout changes."""
import os
ROOT = os.path.dirname(os.path.dirname(os.path.abspath(__file__)))
ND = 13           # number of denoms
P0 = 14           # first pair address
BIG = 85070591730234615865843651857942052863   # u128::MAX / 4

def write(name, header, seq, seed, family, steps):
    with open(os.path.join(ROOT, "corpus", name), "w") as f:
        f.write("# " + header + "\n")
        f.write(f"begin seq={seq} seed={seed} family={family}\n")
        i = 0
        for s in steps:
            if s.startswith("QUERY "):
                f.write(f"query seq={seq} {s[6:]} => ?\n")
            else:
                i += 1
                f.write(f"step seq={seq} i={i} {s} => ?\n")
        f.write(f"end seq={seq}\n")

fund_factory = "bank_send 0 6 " + ",".join(f"{d}:1" for d in range(ND))

# D3 (C16): {uusd, uaura} then {uaurau, usd}: the old key format made them collide
write("C16.txt", "defect D3 (fixed 839ad86): pair_key collision uaura+uusd = uaurau+usd", 1, 1, "factory",
      [fund_factory, "f_add 0 - 0 6", "f_add 0 - 1 6", "f_add 0 - 2 18", "f_add 0 - 3 0",
       "f_create 0 - n1 n0 1,2 0 0 3000000000000000", "f_create 0 - n2 n3 1,2 0 0 3000000000000000"])

# D2 (C02, C03): cw20/cw20 pair, token 8 sent with a hook naming token 9
write("C02.txt", "defect D2 (fixed 9407401): swap hook naming another asset than the sending token", 1, 1, "swap",
      ["f_create 0 - t8 t9 1,2 0 0 3000000000000000",
       f"tok_inc 8 1 {P0} {BIG}", f"tok_inc 9 1 {P0} {BIG}",
       f"pair_provide 1 {P0} - t8 1000000 t9 2000000 - -",
       f"tok_send 8 2 {P0} 1500000 swap:t9:1500000:-:-:-",
       f"tok_send 8 2 {P0} 1000 swap:t8:1000:-:-:-"])

# D4 (C17): 13 pairs containing denom 0, then its decimals are re-registered
steps = [fund_factory] + [f"f_add 0 - {d} 6" for d in range(ND)]
steps += [f"f_create 0 - n0 n{d} 1 0 0 -" for d in range(1, ND)]
steps += [f"f_create 0 - t{t} n0 1 0 0 -" for t in (8, 9, 10)]
steps += ["f_add 0 - 0 9", "f_add 0 - 3 2"]
write("C17.txt", "defect D4 (fixed 831e6ea): decimals fan-out beyond the first page of ten pairs", 1, 1, "factory", steps)

# D1 (C01, C03): the input the repository's own test pins, through a real pair (needs a large unit: seq 2 seed 1)
X = 340282366920938463463374607431
d1 = [ "bank_send 0 6 0:1,1:1", "f_add 0 - 0 6", "f_add 0 - 1 6",
       "f_create 0 - n0 n1 1,2 0 0 30000000000000000",
       f"pair_provide 1 {P0} 0:1000000000,1:1000000000 n0 1000000000 n1 1000000000 - -",
       f"bank_send 2 {P0} 0:{X - 1000000000},1:{X - 1000000000}",
       f"pair_swap 3 {P0} 0:1 n0 1 - - -" ]
for n in ("C01.txt", "C03.txt"):
    write(n, "known finding KF-SWAP-WINDOW at system level: (X, X, 1), the input a repository test pins, through a real pair", 2, 1, "swap", d1)
# legal-but-unusual histories on which an oracle once raised a false alarm (found by an independent review of the oracles):
# they must stay silent on the unchanged tree
mk = ["f_create 0 - t8 t9 1,2 0 0 3000000000000000", f"tok_inc 8 1 {P0} {BIG}", f"tok_inc 9 1 {P0} {BIG}"]
write("C12.txt", "false-alarm regression: a quote followed by two identical swaps — only the first is compared with it", 1, 1, "swap",
      mk + [f"pair_provide 1 {P0} - t8 1000000 t9 2000000 - -", "QUERY sim %d t8 1000" % P0,
            f"tok_send 8 2 {P0} 1000 swap:t8:1000:-:-:-", f"tok_send 8 3 {P0} 1000 swap:t8:1000:-:-:-"])
write("C05.txt", "false-alarm regression: first provision whose receiver is the LP token's own address; a holder burning base tokens", 1, 1, "liquidity",
      mk + [f"pair_provide 1 {P0} - t8 1000000 t9 2000000 - {P0 + 1}", "tok_burn 8 2 1000"])
write("C07.txt", "false-alarm regression: receivers that are contracts (pair, LP token, token, factory, router), extra coins, raw router Receive", 1, 1, "swap",
      ["bank_send 0 6 0:1,1:1", "f_add 0 - 0 6", "f_add 0 - 1 6", "f_create 0 - n0 t9 1,2 0 0 3000000000000000", "f_create 0 - n0 n1 1,2 0 0 0",
       f"tok_inc 9 1 {P0} {BIG}", f"pair_provide 1 {P0} 0:1000000 n0 1000000 t9 2000000 - {P0}",
       f"pair_provide 1 {P0 + 2} 0:1000000,1:3000000 n1 3000000 n0 1000000 500000000000000000 -",
       f"pair_swap 2 {P0} 0:1000 n0 1000 - - {P0 + 1}", f"pair_swap 2 {P0} 0:1000 n0 1000 - - 9", f"pair_swap 2 {P0} 0:1000 n0 1000 - - {P0}",
       f"pair_swap 2 {P0} 0:1000 n0 1000 - - 6", f"pair_swap 2 {P0 + 2} 0:1000,1:777 n0 1000 - - -", f"pair_swap 2 {P0 + 2} 0:1000,1:777 n0 1000 - - 3",
       f"tok_send 9 2 {P0} 5000 swap:t9:5000:-:-:9", f"tok_send 9 2 {P0} 5000 swap:t9:5000:-:-:7", f"tok_transfer {P0 + 1} 1 {P0} 1000",
       f"tok_send {P0 + 1} 1 {P0} 5000 withdraw", "bank_send 3 7 0:5000", "r_receive 4 - 2 0 rops:n0>t9:-:-", "r_ops 2 0:3000 n0>t9;t9>n0 0 7",
       f"r_ops 2 0:3000 n0>t9 1 {P0 + 1}", f"pair_provide 2 {P0 + 2} 0:1000,1:3000 n0 1000 n1 3000 - {P0 + 3}", f"tok_send {P0 + 3} 1 {P0 + 2} 100 withdraw"])
print("corpus regenerated")
