#!/bin/bash
# coverage.sh — line/region coverage of /repo's production source under the correspondence families (quick sizes).
# Supporting measurement only (it shows which implementation code the differential runs reach); scratch output in /tmp.
set -e
B=$(dirname $(find /root/.rustup/toolchains/nightly-x86_64-unknown-linux-gnu -name llvm-cov | head -1))
export CARGO_TARGET_DIR=/tmp/covtarget
rm -rf /tmp/cov && mkdir -p /tmp/cov
( cd /verif/harness && RUSTFLAGS="-C instrument-coverage" cargo build --release --offline 2>&1 | tail -1 )
H=/tmp/covtarget/release/halo-harness
export LLVM_PROFILE_FILE=/tmp/cov/h-%p-%m.profraw
for f in compute_swap compute_offer_amount lp_share refund max_spread slippage assert_sent bignum text pair_key read_pairs assert_operations; do $H fn $f 3000 1 > /dev/null; done
for f in mixed swap liquidity route factory auth; do $H world $f 25 60 1 > /dev/null; done
for c in /verif/corpus/*.txt; do $H replay $c > /dev/null; done
$B/llvm-profdata merge -sparse /tmp/cov/*.profraw -o /tmp/cov/all.profdata
SRC=$(find /repo/contracts/*/src /repo/packages/*/src -name "*.rs" -not -path "*testing*" -not -name "*test*" -not -name "mock_querier.rs" | tr '\n' ' ')
$B/llvm-cov report $H -instr-profile=/tmp/cov/all.profdata $SRC | awk '{print $1, $(NF-5), $(NF-4), $(NF-3)}'
echo "--- lines never executed:"
for f in $SRC; do $B/llvm-cov show $H -instr-profile=/tmp/cov/all.profdata $f 2>/dev/null | grep -E "^ +[0-9]+\| +0\|" | sed "s|^|${f#/repo/}:|" ; done
rm -rf /tmp/covtarget /tmp/cov
