#!/usr/bin/env python3
"""
mutation_campaign.py [--workers N] [--limit K] [--out DIR] [--only REGEX]

Bulk, mechanical mutation of /repo's production source on scratch copies (never /repo itself):
for every single-site mutant that still compiles, run the correspondence families (harness built against
the mutated copy → Lean driver) and the repository's own 101 tests, and classify

    detected      the checks report a DIVERGE or a non-known ORACLE-FAIL
    tests-only    the checks are silent but the repository's tests fail (not a concern of ours)
    SURVIVED      the checks are silent and the 101 tests pass  → equivalent mutant or a blind spot: inspect

Results: <out>/results.jsonl (one line per mutant) and <out>/survivors.txt.
Scratch copies live under /tmp/mc and are removed at the end.
"""
import os, re, sys, json, shutil, subprocess, time, argparse, hashlib
from concurrent.futures import ThreadPoolExecutor

VERIF = "/verif"
DRIVER = os.environ.get("HALO_DRIVER", f"{VERIF}/lean/.lake/build/bin/halodriver")
FILES = [
    ("packages/bignumber/src/math.rs", None),
    ("packages/haloswap/src/formulas.rs", 172),          # unit tests start after this line
    ("packages/haloswap/src/asset.rs", None),
    ("packages/haloswap/src/querier.rs", None),
    ("contracts/halo-pair/src/contract.rs", None),
    ("contracts/halo-pair/src/assert.rs", None),
    ("contracts/halo-factory/src/contract.rs", None),
    ("contracts/halo-factory/src/state.rs", None),
    ("contracts/halo-router/src/contract.rs", None),
    ("contracts/halo-router/src/operations.rs", None),
    ("contracts/halo-router/src/assert.rs", None),
]

OPS = [
    (r" < ", " <= "), (r" <= ", " < "), (r" > ", " >= "), (r" >= ", " > "),
    (r" == ", " != "), (r" != ", " == "),
    (r" \+ ", " - "), (r" - ", " + "), (r" \* ", " / "), (r" / ", " * "),
    (r" && ", " || "), (r" \|\| ", " && "),
    (r"\[0\]", "[1]"), (r"\[1\]", "[0]"),
    (r"if !", "if "), (r"\.is_zero\(\)", ".is_zero() == false"),
    (r"checked_sub", "saturating_sub"),
    (r"\.min\(", ".max("), (r"cmp::min\(", "cmp::max("),
    (r"\bGreater\b", "Less"), (r"\bLess\b", "Greater"),
    (r"\bAscending\b", "Descending"),
    (r"Some\(to\.to_string\(\)\)", "None"),
    (r"\b30\b", "31"), (r"\b10\b", "11"), (r"\b18\b", "17"), (r"\b1\b", "2"), (r"\b0\b", "1"),
]
# second round: identifier swaps, constants, condition negation
OPS2 = [
    (r"\boffer_pool\b", "ask_pool"), (r"\bask_pool\b", "offer_pool"),
    (r"\boffer_decimal\b", "ask_decimal"), (r"\bask_decimal\b", "offer_decimal"),
    (r"\breturn_amount\b", "spread_amount"), (r"\bcommission_amount\b", "spread_amount"), (r"\bspread_amount\b", "commission_amount"),
    (r"\btotal_share\b", "share"), (r"\boffer_amount\b", "ask_amount"), (r"\bask_amount\b", "offer_amount"),
    (r"\boffer_asset_info\b", "ask_asset_info"), (r"\bask_asset_info\b", "offer_asset_info"),
    (r"\bsender\b", "receiver"), (r"\breceiver\b", "sender"),
    (r"checked_add", "checked_sub"), (r"checked_mul", "checked_div"), (r"checked_div", "checked_mul"),
    (r"Uint256::one\(\)", "Uint256::zero()"), (r"Decimal256::one\(\)", "Decimal256::zero()"),
    (r"Uint128::zero\(\)", "Uint128::one()"), (r"Uint256::zero\(\)", "Uint256::one()"), (r"Decimal256::zero\(\)", "Decimal256::one()"),
    (r"\btrue\b", "false"), (r"\bfalse\b", "true"),
    (r"\.unwrap_or\(([a-z_\.]+)\)", ".unwrap()"),
    (r"\bmax_spread\b", "belief_price"),
    (r"\.rev\(\)", ""), (r"\.skip\(1\)", ""), (r"\.take\(limit\)", ".take(limit + 1)"),
    (r"decimals\[0\]", "decimals[1]"),
    (r" \+= ", " -= "), (r" -= ", " += "),
    (r"Order::Ascending", "Order::Descending"),
    (r"\.is_native_token\(\)", ".is_native_token() == false"),
    (r"\.is_some\(\)", ".is_none()"), (r"\.is_none\(\)", ".is_some()"),
    (r"DEFAULT_COMMISSION_RATE", "\"0.3\""),
]
NEGATE = re.compile(r"^(\s*)(\}?\s*(?:else\s+)?if )((?!let ).+) \{\s*$")
GUARD = re.compile(r"^(\s*)(\}?\s*(?:else\s+)?if )(.+) \{\s*$")


STMT = re.compile(r"^\s+(?!let |return|use |const |pub |fn |if |else|match |for |while |\}|\)|\]|//|#)[A-Za-z_][\w\.:]*(\(|\.|::| [+\-*/]?= ).*;\s*$")
ARG_SWAP = re.compile(r"\(([a-z_][\w\.]*(?:\[\d\])?(?:\.clone\(\))?), ([a-z_][\w\.]*(?:\[\d\])?(?:\.clone\(\))?)\)")


def mutants3():
    """round 3: whole single-line statements deleted; the two arguments of a two-argument call swapped"""
    out = []
    for rel, maxline in FILES:
        src = open(os.path.join("/repo", rel)).read().split("\n")
        for i, line in enumerate(src):
            if maxline and i + 1 > maxline:
                break
            code = line.split("//")[0]
            if STMT.match(code):
                out.append({"file": rel, "line": i + 1, "orig": line, "new": "", "op": "statement deleted", "col": 0})
            for m in ARG_SWAP.finditer(code):
                if m.group(1) != m.group(2):
                    new = code[:m.start()] + "(" + m.group(2) + ", " + m.group(1) + ")" + code[m.end():]
                    out.append({"file": rel, "line": i + 1, "orig": line, "new": new, "op": "arguments swapped", "col": m.start()})
    return out


def mutants(ops=None, negate=False):
    ops = ops or OPS
    out = []
    for rel, maxline in FILES:
        src = open(os.path.join("/repo", rel)).read().split("\n")
        in_comment = False
        for i, line in enumerate(src):
            if maxline and i + 1 > maxline:
                break
            s = line.strip()
            if s.startswith("//") or s.startswith("#[") or s.startswith("use ") or s.startswith("*") or s.startswith("/*"):
                continue
            if "const CONTRACT_" in line or "attr" in line and "add_attribute" in line:
                continue
            code = line.split("//")[0]
            for pat, rep in ops:
                for m in re.finditer(pat, code):
                    new = code[:m.start()] + rep + code[m.end():]
                    if new != code:
                        out.append({"file": rel, "line": i + 1, "orig": line, "new": new, "op": f"{pat} -> {rep}", "col": m.start()})
            ng = NEGATE.match(code)
            if negate and ng:
                out.append({"file": rel, "line": i + 1, "orig": line, "new": f"{ng.group(1)}{ng.group(2)}!({ng.group(3)}) {{",
                            "op": "condition negated", "col": 0})
            if negate:
                continue
            # guard removal: `if cond {` followed by a `return Err(` / panic line → `if false && (cond) {`
            g = GUARD.match(code)
            if g and i + 1 < len(src) and ("return Err(" in src[i + 1] or "panic!" in src[i + 1]):
                out.append({"file": rel, "line": i + 1, "orig": line, "new": f"{g.group(1)}{g.group(2)}false && ({g.group(3)}) {{",
                            "op": "guard removed", "col": 0})
            # statement deletion of `x.assert_…?;` / `assert_…(…)?;` single-line calls
            if re.match(r"^\s*[\w\.]*assert\w*\(.*\)\?;\s*$", code):
                out.append({"file": rel, "line": i + 1, "orig": line, "new": "", "op": "assert call deleted", "col": 0})
    # de-duplicate
    seen, uniq = set(), []
    for m in out:
        k = (m["file"], m["line"], m["new"])
        if k not in seen:
            seen.add(k)
            uniq.append(m)
    return uniq


def sh(cmd, cwd=None, timeout=900, env=None):
    p = subprocess.run(cmd, cwd=cwd, stdout=subprocess.PIPE, stderr=subprocess.STDOUT, text=True, timeout=timeout, env=env)
    return p.returncode, p.stdout


def prepare_worker(root, k):
    w = os.path.join(root, f"w{k}")
    shutil.rmtree(w, ignore_errors=True)
    os.makedirs(w)
    repo = os.path.join(w, "repo")
    sh(["git", "-C", "/repo", "worktree", "add", "--detach", repo, "HEAD"])
    h = os.path.join(w, "harness")
    os.makedirs(os.path.join(h, "src"))
    os.makedirs(os.path.join(h, ".cargo"))
    for f in os.listdir(f"{VERIF}/harness/src"):
        shutil.copy(f"{VERIF}/harness/src/{f}", os.path.join(h, "src", f))
    toml = open(f"{VERIF}/harness/Cargo.toml").read().replace('"/repo/', f'"{repo}/')
    open(os.path.join(h, "Cargo.toml"), "w").write(toml)
    shutil.copy(f"{VERIF}/harness/Cargo.lock", os.path.join(h, "Cargo.lock"))
    shutil.copy(f"{VERIF}/harness/.cargo/config.toml", os.path.join(h, ".cargo", "config.toml"))
    env = dict(os.environ, CARGO_NET_OFFLINE="true")
    env.pop("RUSTFLAGS", None)
    rc, out = sh(["cargo", "build", "--release", "--offline"], cwd=h, env=env, timeout=1800)
    assert rc == 0, out[-2000:]
    rc, out = sh(["cargo", "test", "--workspace", "--no-fail-fast", "--offline"], cwd=repo, env=env, timeout=1800)
    return w


FAMILIES = [("fn", f, n) for f, n in [("compute_swap", 30000), ("compute_offer_amount", 20000), ("lp_share", 20000), ("refund", 20000),
                                        ("max_spread", 20000), ("slippage", 20000), ("assert_sent", 1), ("bignum", 20000), ("text", 1500),
                                        ("pair_key", 2000), ("read_pairs", 1500), ("assert_operations", 5000)]] + \
           [("world", f, (10, 60)) for f in ("mixed", "swap", "liquidity", "route", "factory", "auth")]


def run_checks(w):
    """→ (detected?, first report line)"""
    hbin = os.path.join(w, "harness", "target", "release", "halo-harness")
    first = None
    for kind, fam, n in FAMILIES:
        cmd = [hbin, "fn", fam, str(n), "1"] if kind == "fn" else [hbin, "world", fam, str(n[0]), str(n[1]), "1"]
        h = subprocess.Popen(cmd, stdout=subprocess.PIPE, stderr=subprocess.DEVNULL)
        d = subprocess.run([DRIVER], stdin=h.stdout, stdout=subprocess.PIPE, stderr=subprocess.DEVNULL, text=True)
        h.wait()
        if h.returncode != 0:
            return True, f"harness crashed on {fam}"
        for line in d.stdout.splitlines():
            if line.startswith("DIVERGE ") or (line.startswith("ORACLE-FAIL ") and "known=" not in line.split(" :: ")[0]):
                return True, line[:300]
    return False, first


def eval_mutant(w, m):
    repo = os.path.join(w, "repo")
    path = os.path.join(repo, m["file"])
    orig = open(path).read()
    lines = orig.split("\n")
    assert lines[m["line"] - 1] == m["orig"], (m, lines[m["line"] - 1])
    lines[m["line"] - 1] = m["new"]
    open(path, "w").write("\n".join(lines))
    env = dict(os.environ, CARGO_NET_OFFLINE="true")
    env.pop("RUSTFLAGS", None)
    res = dict(m)
    t0 = time.time()
    try:
        rc, out = sh(["cargo", "build", "--release", "--offline"], cwd=os.path.join(w, "harness"), env=env)
        if rc != 0:
            res["status"] = "does-not-compile"
            return res
        det, line = run_checks(w)
        rc, out = sh(["cargo", "test", "--workspace", "--no-fail-fast", "--offline"], cwd=repo, env=env)
        passed = sum(int(x) for x in re.findall(r"test result: \w+\. (\d+) passed", out))
        failed = sum(int(x) for x in re.findall(r"test result: \w+\. \d+ passed; (\d+) failed", out))
        tests_ok = (rc == 0 and failed == 0 and passed >= 101)
        res["tests_pass"] = tests_ok
        res["report"] = line
        res["status"] = ("detected" if tests_ok else "detected+tests") if det else ("SURVIVED" if tests_ok else "tests-only")
        return res
    except subprocess.TimeoutExpired:
        res["status"] = "timeout"
        return res
    finally:
        open(path, "w").write(orig)
        res["secs"] = round(time.time() - t0, 1)


def main():
    ap = argparse.ArgumentParser()
    ap.add_argument("--workers", type=int, default=4)
    ap.add_argument("--limit", type=int, default=0)
    ap.add_argument("--out", default=f"{VERIF}/seeded/campaign")
    ap.add_argument("--only", default="")
    ap.add_argument("--stride", type=int, default=1, help="take every k-th mutant")
    ap.add_argument("--offset", type=int, default=0)
    ap.add_argument("--recheck", default="", help="re-evaluate the mutants that an earlier results file gave one of these statuses (comma separated)")
    ap.add_argument("--results", default="results.jsonl")
    ap.add_argument("--round3", action="store_true", help="third operator set (statement deletion, argument swaps)")
    ap.add_argument("--round2", action="store_true", help="second operator set (identifier swaps, constants, negated conditions)")
    a = ap.parse_args()
    ms = mutants3() if a.round3 else (mutants(OPS2, True) if a.round2 else mutants())
    if a.recheck:
        want = set(a.recheck.split(","))
        old = [json.loads(l) for l in open(os.path.join(a.out, "results.jsonl"))]
        keys = {(r["file"], r["line"], r["new"]) for r in old if r["status"] in want}
        ms = [m for m in ms if (m["file"], m["line"], m["new"]) in keys]
    if a.only:
        ms = [m for m in ms if re.search(a.only, m["file"] + ":" + m["op"])]
    donef = os.path.join(a.out, a.results)
    if os.path.exists(donef) and not a.recheck:
        done = {(r["file"], r["line"], r["new"]) for r in (json.loads(l) for l in open(donef))}
        ms = [m for m in ms if (m["file"], m["line"], m["new"]) not in done]
    ms = ms[a.offset::a.stride]
    if a.limit:
        ms = ms[:a.limit]
    print(f"{len(ms)} mutants", flush=True)
    os.makedirs(a.out, exist_ok=True)
    root = "/tmp/mc"
    os.makedirs(root, exist_ok=True)
    workers = [prepare_worker(root, k) for k in range(a.workers)]
    print("workers ready", flush=True)
    chunks = [ms[k::a.workers] for k in range(a.workers)]
    resf = open(os.path.join(a.out, a.results), "a")

    def work(k):
        out = []
        for m in chunks[k]:
            r = eval_mutant(workers[k], m)
            out.append(r)
            resf.write(json.dumps(r) + "\n"); resf.flush()
            print(f"[{k}] {r['status']:18s} {m['file']}:{m['line']} {m['op']}", flush=True)
        return out

    with ThreadPoolExecutor(max_workers=a.workers) as ex:
        allr = [r for rs in ex.map(work, range(a.workers)) for r in rs]
    counts = {}
    for r in allr:
        counts[r["status"]] = counts.get(r["status"], 0) + 1
    print(counts)
    with open(os.path.join(a.out, "survivors.txt" if not a.recheck else "survivors-recheck.txt"), "a") as fh:
        for r in allr:
            if r["status"] == "SURVIVED":
                fh.write(f"{r['file']}:{r['line']} [{r['op']}]\n    - {r['orig'].strip()}\n    + {r['new'].strip()}\n")
    for k in range(a.workers):
        sh(["git", "-C", "/repo", "worktree", "remove", "--force", os.path.join(root, f"w{k}", "repo")])
    shutil.rmtree(root, ignore_errors=True)
    sh(["git", "-C", "/repo", "worktree", "prune"])


if __name__ == "__main__":
    main()
