#!/bin/bash
# multiseed.sh <seed>...  — all twenty quick checks on the unchanged tree under other generator seeds (false-alarm hunt).
# Each check holds /tmp/repo.lock, so seeded changes can be tried in between (tools/try_seed.sh).
cd /verif
for s in "$@"; do for i in 01 02 03 04 05 06 07 08 09 10 11 12 13 14 15 16 17 18 19 20; do
  flock /tmp/repo.lock env VERIF_SEED=$s timeout 2400 ./check C$i 2>&1 | grep -E "VIOLATION|^OK" | cut -c1-160 | sed "s/^/seed=$s /"
  if [ -f evidence/replays/C$i-1.txt ] && grep -q "seed=$s" evidence/replays/C$i-1.txt 2>/dev/null; then cp evidence/replays/C$i-1.txt /tmp/multiseed-C$i-$s.txt; fi
done; done
echo ALLDONE
