#!/bin/bash
# replay_audit.sh — replays the legal-but-unusual histories collected by the independent oracle reviews (corpus/audit/*.txt)
# on the current /repo and the current driver: every one of them must stay silent on the unchanged tree.
cd /verif
( cd harness && cargo build --release --offline 2>&1 | grep -E '^error' )   # the binary must match /repo's current tree
bad=0
for f in corpus/audit/*.txt; do
  out=$(harness/target/release/halo-harness replay $f 2>/dev/null | lean/.lake/build/bin/halodriver | grep -E "^(DIVERGE|ORACLE-FAIL)" | grep -v "known=")
  if [ -n "$out" ]; then bad=$((bad+1)); echo "== $f"; echo "$out" | cut -c1-200 | head -3; fi
done
echo "audit histories with alarms: $bad"
[ $bad -eq 0 ]
