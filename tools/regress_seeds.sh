#!/bin/bash
# regress_seeds.sh [pattern] — apply every seeded change in /verif/seeded to /repo in turn, run the quick check of the
# property it breaks, undo it; prints one line per seed.  /repo must be clean; it is clean again afterwards.
cd /verif
for d in seeded/S${1:-}*/; do
  id=$(basename $d)
  prop=$(python3 -c "import json;print(json.load(open('$d/meta.json'))['breaks_property'])")
  out=$(tools/try_seed.sh /verif/$d/patch.diff $prop 2>&1 | grep -E "^(VIOLATION|OK)" | head -1 | cut -c1-110)
  echo "$id :: $out"
done
git -C /repo status --short | head -3
