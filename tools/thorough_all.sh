#!/bin/bash
# thorough_all.sh — every property's thorough check on the unchanged tree, one after the other (holds /tmp/repo.lock per check)
cd /verif
for i in ${@:-01 02 03 04 05 06 07 08 09 10 11 12 13 14 15 16 17 18 19 20}; do
  flock /tmp/repo.lock timeout 7200 ./check C$i --tier thorough 2>&1 | grep -E "VIOLATION|^OK" | cut -c1-170
done
echo ALLDONE
