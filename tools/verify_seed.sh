#!/bin/bash
# verify_seed.sh <worktree>  — confirm a seeded change: (1) with the change the 101 baseline tests pass and the demo fails,
# (2) without it the demo passes.  Leaves the worktree with the change applied.
set -u
WT=$1
cd "$WT" || exit 2
[ -f SEEDED/patch.diff ] || { echo "no SEEDED/patch.diff"; exit 2; }
# make sure the change is applied
git apply --check -R SEEDED/patch.diff 2>/dev/null || git apply SEEDED/patch.diff || { echo "patch does not apply"; exit 2; }
echo "== with the change"
cargo test --workspace --no-fail-fast --offline 2>&1 | grep -E "^test result|Running|^test .* FAILED" > /tmp/vs_with.txt
awk '/^test result/ {p+=$4; f+=$6} END {print "passed", p, "failed", f}' /tmp/vs_with.txt
grep -E "FAILED" /tmp/vs_with.txt | head -5
echo "== without the change"
git apply -R SEEDED/patch.diff || { echo "cannot revert"; exit 2; }
cargo test --workspace --no-fail-fast --offline 2>&1 | grep -E "^test result|^test .* FAILED" > /tmp/vs_without.txt
awk '/^test result/ {p+=$4; f+=$6} END {print "passed", p, "failed", f}' /tmp/vs_without.txt
grep -E "FAILED" /tmp/vs_without.txt | head -5
git apply SEEDED/patch.diff
